// Package c02: every replicated TXID is one consistent committed state; TXIDs
// are monotone; level 0 is gapless from 1 (DESIGN §4 C02).
package c02

import (
	"context"
	"crypto/sha256"
	"database/sql"
	"encoding/binary"
	"encoding/json"
	"fmt"
	"io"
	"math/rand"
	"os"
	"sort"
	"strings"
	"sync"
	"sync/atomic"
	"time"

	"github.com/benbjohnson/litestream"
	"github.com/superfly/ltx"

	"verif/harness/internal/hist"
	"verif/harness/internal/oracle"
	"verif/harness/internal/sq"
	"verif/harness/internal/vf"
)

type spec struct {
	Kind  string      `json:"kind"` // "A" sequential interleavings, "B" live concurrent writer, "S" live writer + checkpoint-then-snapshot stress
	Seed  int64       `json:"seed"`
	Ops   int         `json:"ops"`
	Cfg   hist.Config `json:"cfg"`
	RunMs int         `json:"run_ms,omitempty"`
	// Script, when set, is executed first (op codes of the sequential runner:
	// 0 write, 16 sync, 21 sync-and-wait, 25 snapshot, 27 compact, 100/101 disk full
	// on/off, 230..233 litestream checkpoint PASSIVE/FULL/RESTART/TRUNCATE)
	Script []int `json:"script,omitempty"`
	// Demo selects a pinned directed history (kind "D"); see runD.
	Demo string `json:"demo,omitempty"`
}

func init() {
	vf.Register(&vf.Check{
		ID:    "C02",
		Level: "exploration",
		Rule: "workload A: generated sequential histories in which syncs, chunked syncs (MaxSyncWALBytes of 1..3 frames), checkpoints, snapshots and compactions run while an application write transaction with spilled, uncommitted frames (and a poison row) is open, then committed or rolled back; " +
			"workload B: a live writer goroutine (multi-statement transactions, rollbacks) against monitor-driven litestream (1-5 ms) plus a maintenance goroutine issuing Snapshot/Checkpoint(all modes)/Compact/Sync. " +
			"workload S: live writer, no background sync, a litestream checkpoint (1 ms busy timeout in half of the runs: bookkeeping writes fail) immediately followed by a snapshot; " +
			"workload D: pinned directed histories in which the application restarts a completely checkpointed WAL between litestream's validation of the frames and its copy of the page data (DB.sync and the level-9 stream; suspension point = litestream's own log call, counters D_window_reached / D_wal_restarted_inside_window); " +
			"After each history every TXID listed at any level (and every integer 1..max) is restored and must equal, by logical dump hash, the state after some application commit k(n) (no poison rows, integrity ok), k monotone in n, L0 gapless from 1 with MinTXID==MaxTXID. " +
			"distinct = hash(kind, config, op sequence / seed); non-trivial = >=1 sync ran with uncommitted frames present (A) or >=20 commits raced the monitors (B), and >=3 distinct k(n)",
		Assumptions: []string{"file replica client only", "ledger dump hash identifies a committed state (sha256)", "modernc SQLite executes the application side"},
		Cases:       cases,
		RunCase:     runCase,
		MinEvals:    100,
		CaseTimeout: 10 * time.Minute,
	})
}

func cases(run *vf.Run) ([]json.RawMessage, error) {
	nA, nB, ms := 40, 6, 4000
	if run.Tier == "thorough" {
		nA, nB, ms = 600, 60, 10000
	}
	var out []json.RawMessage
	// B first: they are the long ones
	for i := 0; i < nB; i++ {
		rng := rand.New(rand.NewSource(vf.SubSeed(run.Seed, "C02B", i)))
		cfg := hist.RandomConfig(rng)
		cfg.PageSize = []int{512, 4096, 8192, 1024, 65536}[i%5]
		cfg.MinCheckpointPageN = []int{5, 20, 200}[rng.Intn(3)]
		cfg.TruncatePageN = []int{50, 400, 0}[rng.Intn(3)]
		cfg.MaxSyncWALFrames = []int{0, 4, -1}[rng.Intn(3)]
		cfg.MaxSyncLTXFiles = 0
		out = append(out, vf.Spec(spec{Kind: "B", Seed: vf.SubSeed(run.Seed, "C02B-case", i), Cfg: cfg, RunMs: ms}))
	}
	nS := 6
	if run.Tier == "thorough" {
		nS = 40
	}
	for i := 0; i < nS; i++ {
		rng := rand.New(rand.NewSource(vf.SubSeed(run.Seed, "C02S", i)))
		cfg := hist.RandomConfig(rng)
		cfg.PageSize = []int{4096, 512, 8192}[i%3]
		cfg.MinCheckpointPageN = 1000
		cfg.TruncatePageN = 0
		cfg.MaxSyncWALFrames = 0
		cfg.MaxSyncLTXFiles = 0
		out = append(out, vf.Spec(spec{Kind: "S", Seed: vf.SubSeed(run.Seed, "C02S-case", i), Cfg: cfg, RunMs: ms}))
	}
	// D: pinned directed histories (independent of VERIF_SEED): litestream is opened
	// over a completely checkpointed WAL and the application's next commits restart
	// that WAL between litestream's validation of the frames and its copy of the page
	// data (litestream's own log call between the two is the suspension point).
	for i, d := range demos {
		for j, ps := range []int{4096, 1024, 8192} {
			cfg := hist.Config{PageSize: ps, AutoVacuum: []int{0, 2, 1}[j], MinCheckpointPageN: 1000, MaxSyncWALFrames: 0}
			out = append(out, vf.Spec(spec{Kind: "D", Demo: d, Seed: int64(7001 + 10*i + j), Cfg: cfg}))
		}
	}
	// F: like A, plus "disk full" episodes on the litestream meta directory (local
	// LTX staging area) around litestream operations
	nF := 24
	if run.Tier == "thorough" {
		nF = 400
	}
	// directed: everything copied; disk full; litestream checkpoint of each mode (the WAL
	// restarts, the copy after it fails); space again; application commits; snapshot
	// before the next sync; syncs
	for i, ck := range []int{230, 231, 232, 233} {
		cfg := hist.Config{PageSize: []int{4096, 1024, 8192, 512}[i], MinCheckpointPageN: 1000, MaxSyncWALFrames: 0}
		out = append(out, vf.Spec(spec{Kind: "F", Seed: vf.SubSeed(run.Seed, "C02F-directed", i), Ops: 6, Cfg: cfg,
			Script: []int{0, 0, 16, 0, 0, 21, 100, ck, 101, 0, 0, 25, 21, 0, 21}}))
	}
	for i := 0; i < nF; i++ {
		rng := rand.New(rand.NewSource(vf.SubSeed(run.Seed, "C02F", i)))
		cfg := hist.RandomConfig(rng)
		cfg.PageSize = hist.PageSizes[(i+3)%len(hist.PageSizes)]
		if i%3 == 0 {
			cfg.MaxSyncWALFrames = 1 + rng.Intn(3)
		}
		if i%2 == 0 {
			cfg.MinCheckpointPageN = []int{2, 5}[rng.Intn(2)] // litestream's own checkpoints fire often
		}
		out = append(out, vf.Spec(spec{Kind: "F", Seed: vf.SubSeed(run.Seed, "C02F-case", i), Ops: 40 + rng.Intn(40), Cfg: cfg}))
	}
	for i := 0; i < nA; i++ {
		rng := rand.New(rand.NewSource(vf.SubSeed(run.Seed, "C02A", i)))
		cfg := hist.RandomConfig(rng)
		cfg.PageSize = hist.PageSizes[i%len(hist.PageSizes)]
		if i%2 == 0 {
			cfg.MaxSyncWALFrames = 1 + rng.Intn(3)
		}
		out = append(out, vf.Spec(spec{Kind: "A", Seed: vf.SubSeed(run.Seed, "C02A-case", i), Ops: 40 + rng.Intn(40), Cfg: cfg}))
	}
	return out, nil
}

func runCase(run *vf.Run, raw json.RawMessage, dir string) *vf.Result {
	var s spec
	res := &vf.Result{}
	if err := json.Unmarshal(raw, &s); err != nil {
		res.HarnessErr = err.Error()
		return res
	}
	if s.Kind == "B" || s.Kind == "S" {
		return runB(s, dir, res)
	}
	if s.Kind == "D" {
		return runD(s, dir, res)
	}
	// "A" and "F" share the sequential runner
	return runA(s, dir, res)
}

func runA(s spec, dir string, res *vf.Result) *vf.Result {
	rng := rand.New(rand.NewSource(s.Seed))
	e, err := hist.NewEnv(dir, s.Cfg, rng, res)
	if err != nil {
		res.HarnessErr = err.Error()
		return res
	}
	defer e.Close()
	faults := s.Kind == "F"
	if faults {
		if err := e.MountMeta(64); err != nil {
			res.Count("local_fault_unavailable(mount failed)", 1)
			res.Logf("no local faults in this history: %v", err)
			faults = false
		}
	}
	if err := e.StartLS(); err != nil {
		res.HarnessErr = "open litestream: " + err.Error()
		return res
	}
	ctx := context.Background()
	var ops []string
	syncsWithUncommitted := 0
	herr := func(err error) *vf.Result {
		res.HarnessErr = err.Error()
		return res
	}
	// a fault episode is a short forced sequence: [disk full] litestream op(s)
	// [space again] application writes, then a snapshot / sync / checkpoint
	forced := append([]int(nil), s.Script...)
	failedUnderFault := 0
	for i := 0; i < s.Ops+len(s.Script); i++ {
		r := rng.Intn(32)
		if faults && len(forced) == 0 && rng.Intn(9) == 0 {
			lsop := func() int { return []int{16, 16, 21, 23, 23, 23, 25, 27}[rng.Intn(8)] } // sync, syncwait, ckpt, snapshot, compact
			if rng.Intn(2) == 0 {
				// everything copied before the disk fills up: the checkpoint under the
				// fault then restarts the WAL and fails in the copy after it; the
				// application commits, and a snapshot is asked for before the next sync
				forced = append(forced, 110, 16, 100, 230+rng.Intn(4), 101, 0)
				if rng.Intn(2) == 0 {
					forced = append(forced, 0)
				}
				forced = append(forced, []int{25, 25, 25, 16, 23}[rng.Intn(5)])
			} else {
				forced = append(forced, 100, lsop())
				if rng.Intn(3) == 0 {
					forced = append(forced, lsop())
				}
				forced = append(forced, 101)
				for n := rng.Intn(3); n > 0; n-- {
					forced = append(forced, 0)
				}
				forced = append(forced, []int{25, 25, 16, 23}[rng.Intn(4)])
			}
		}
		if len(forced) > 0 {
			r = forced[0]
			forced = forced[1:]
		}
		var op string
		switch {
		case r == 100:
			op = "diskfull-on"
			if err := e.MetaFull(true); err != nil {
				return herr(fmt.Errorf("harness: fill meta fs: %w", err))
			}
			res.Count("diskfull_episodes", 1)
			e.Logf("meta directory file system is now full")
		case r == 110:
			op = "unpin"
			if err := e.EndOpenTx(rng.Intn(2) == 0); err != nil {
				return herr(err)
			}
			e.EndReader()
		case r == 101:
			op = "diskfull-off"
			if err := e.MetaFull(false); err != nil {
				return herr(fmt.Errorf("harness: free meta fs: %w", err))
			}
			e.Logf("meta directory file system has space again")
		case r < 8:
			op = "write"
			if _, err := e.AppWrite(); err != nil {
				return herr(err)
			}
		case r < 9:
			op = "maint"
			e.Maint()
		case r < 10:
			op = "appckpt"
			e.AppCheckpoint(hist.CheckpointModes[rng.Intn(4)])
		case r < 15:
			op = "otx"
			if err := e.ToggleOpenTx(); err != nil {
				return herr(err)
			}
		case r < 16:
			op = "reader"
			e.ToggleReader()
		case r < 21:
			op = "sync"
			err := e.LS.Sync(ctx)
			e.Logf("DB.Sync err=%v (open txn=%v)", err, e.OTx != nil)
			if err != nil && e.MetaIsFull() {
				failedUnderFault++
			}
			if err == nil && e.OTx != nil {
				syncsWithUncommitted++
			}
		case r < 23:
			op = "syncwait"
			err := e.LS.SyncAndWait(ctx)
			e.Logf("SyncAndWait err=%v (open txn=%v)", err, e.OTx != nil)
			if err == nil && e.OTx != nil {
				syncsWithUncommitted++
			}
		case r < 25 || (r >= 230 && r <= 233):
			mode := hist.CheckpointModes[rng.Intn(4)]
			if r >= 230 {
				mode = hist.CheckpointModes[r-230]
			}
			op = "ckpt-" + mode
			err := e.LS.Checkpoint(ctx, mode)
			e.Logf("DB.Checkpoint(%s) err=%v (open txn=%v)", mode, err, e.OTx != nil)
			if err != nil && e.MetaIsFull() {
				failedUnderFault++
			}
		case r < 27:
			op = "snapshot"
			if err := e.LS.Replica.Sync(ctx); err == nil {
				_, err := e.LS.Snapshot(ctx)
				e.Logf("Snapshot err=%v (open txn=%v)", err, e.OTx != nil)
				if err == nil {
					res.Count("snapshots", 1)
				}
			}
		default:
			lvl := 1 + rng.Intn(3)
			op = fmt.Sprintf("compact%d", lvl)
			if err := e.LS.Replica.Sync(ctx); err == nil {
				_, err := e.LS.Compact(ctx, lvl)
				e.Logf("Compact(%d) err=%v", lvl, err)
				if err == nil {
					res.Count("compactions", 1)
				}
			}
		}
		ops = append(ops, op)
	}
	if err := e.MetaFull(false); err != nil {
		return herr(err)
	}
	if err := e.EndOpenTx(rng.Intn(2) == 0); err != nil {
		return herr(err)
	}
	e.EndReader()
	if err := e.LS.SyncAndWait(ctx); err != nil {
		e.Logf("final SyncAndWait err=%v", err)
	}
	res.Count("syncs_with_uncommitted_frames", syncsWithUncommitted)
	if faults {
		res.Count("litestream_calls_failed_while_disk_full", failedUnderFault)
	}
	distinctK := checkAllTXIDs(e, res)
	res.Sig = fmt.Sprintf("%s-%x", s.Kind, sha256.Sum256([]byte(s.Cfg.String()+strings.Join(ops, ","))))[:18]
	res.Nontrivial = syncsWithUncommitted >= 1 && distinctK >= 3
	if s.Kind == "F" {
		res.Nontrivial = failedUnderFault >= 1 && distinctK >= 3
	}
	res.Sample = map[string]any{"kind": s.Kind, "cfg": s.Cfg.String(), "ops": strings.Join(ops, " "), "syncs_with_uncommitted": syncsWithUncommitted, "distinct_k": distinctK}
	return res
}

// ---------------------------------------------------------------------------
// directed histories D

var demos = []string{
	"restart-during-first-sync",      // no local state, new destination: the first level-0 file (a snapshot) is being written
	"restart-during-reopened-sync",   // litestream restarted with its meta directory: incremental or snapshot sync
	"restart-during-level9-snapshot", // the level-9 snapshot stream is reading
}

// walSalt1 reads salt-1 of the WAL header through a descriptor on the -wal file
// (never on the database file: closing one would drop the process's POSIX locks).
func walSalt1(dbPath string) uint32 {
	f, err := os.Open(dbPath + "-wal")
	if err != nil {
		return 0
	}
	defer f.Close()
	var hdr [32]byte
	if _, err := io.ReadFull(f, hdr[:]); err != nil {
		return 0
	}
	return binary.BigEndian.Uint32(hdr[16:])
}

func runD(s spec, dir string, res *vf.Result) *vf.Result {
	rng := rand.New(rand.NewSource(s.Seed))
	e, err := hist.NewEnv(dir, s.Cfg, rng, res)
	if err != nil {
		res.HarnessErr = err.Error()
		return res
	}
	defer e.Close()
	ctx := context.Background()
	herr := func(f string, a ...any) *vf.Result {
		res.HarnessErr = fmt.Sprintf(f, a...)
		return res
	}
	writes := func(kinds ...string) error {
		for _, k := range kinds {
			if _, err := e.AppWriteKind(k); err != nil {
				return err
			}
		}
		return nil
	}
	if err := writes("ins-small", "ins-multi", "ins-big", "ins-small"); err != nil {
		return herr("%v", err)
	}
	{
		// an earlier litestream run (its bookkeeping tables exist in the database)
		if err := e.StartLS(); err != nil {
			return herr("open litestream: %v", err)
		}
		if err := e.LS.SyncAndWait(ctx); err != nil {
			return herr("demo: initial sync failed: %v", err)
		}
		cctx, cancel := context.WithTimeout(ctx, 20*time.Second)
		err := e.LS.Close(cctx)
		cancel()
		if err != nil {
			return herr("demo: close failed: %v", err)
		}
		if s.Demo == "restart-during-first-sync" {
			// a new backup destination and no local state: the next run starts at TXID 1
			if err := os.RemoveAll(e.LS.MetaPath()); err != nil {
				return herr("demo: %v", err)
			}
			if err := os.RemoveAll(e.RepPath); err != nil {
				return herr("demo: %v", err)
			}
		}
	}
	// litestream is down: the application commits and checkpoints everything; the
	// WAL keeps its frames and can be restarted by the next writer
	if err := writes("ins-multi", "update", "ins-big", "ins-small", "ins-multi"); err != nil {
		return herr("%v", err)
	}
	e.AppCheckpoint("FULL")

	// the suspension point: litestream's own log call between building the page map
	// and copying the page data
	at := "encode header"
	if s.Demo == "restart-during-level9-snapshot" {
		at = "encode snapshot header"
	}
	var armed, fired atomic.Bool
	var restarted atomic.Bool
	e.Logs.Hook = func(msg string) {
		if msg != at || !armed.Load() || fired.Swap(true) {
			return
		}
		before := walSalt1(e.DBPath)
		// enough frames for the new generation to grow past the old one
		if err := writes("ins-big", "ins-multi", "ins-big", "ins-multi", "ins-big", "ins-multi", "ins-big", "ins-multi", "ins-big", "ins-multi", "ins-big", "ins-multi"); err != nil {
			res.Logf("demo: application write inside the window: %v", err)
		}
		if after := walSalt1(e.DBPath); after != before {
			restarted.Store(true)
		}
		res.Logf("demo: application committed inside the copy window at %q: wal salt-1 %d -> %d", msg, before, walSalt1(e.DBPath))
	}
	if err := e.StartLS(); err != nil {
		return herr("open litestream: %v", err)
	}
	if s.Demo == "restart-during-level9-snapshot" {
		if err := e.LS.SyncAndWait(ctx); err != nil {
			return herr("demo: sync after reopen failed: %v", err)
		}
		armed.Store(true)
		_, err := e.LS.Snapshot(ctx)
		e.Logf("Snapshot with the WAL restarted while its stream was reading: err=%v", err)
		if err == nil {
			res.Count("D_snapshot_published_despite_restart", 1)
		} else {
			res.Count("D_snapshot_refused", 1)
		}
	} else {
		armed.Store(true)
		err := e.LS.Sync(ctx)
		e.Logf("DB.Sync with the WAL restarted during its copy: err=%v", err)
		if err == nil {
			res.Count("D_sync_ok_despite_restart", 1)
		} else {
			res.Count("D_sync_refused", 1)
		}
	}
	armed.Store(false)
	if fired.Load() {
		res.Count("D_window_reached", 1)
	}
	if restarted.Load() {
		res.Count("D_wal_restarted_inside_window", 1)
	}
	// normal operation afterwards
	for i := 0; i < 3; i++ {
		if err := writes("ins-small", "update"); err != nil {
			return herr("%v", err)
		}
		err := e.LS.SyncAndWait(ctx)
		e.Logf("SyncAndWait err=%v", err)
	}
	if _, err := e.LS.Snapshot(ctx); err == nil {
		res.Count("snapshots", 1)
	}
	if err := e.LS.SyncAndWait(ctx); err != nil {
		e.Logf("final SyncAndWait err=%v", err)
	}
	distinctK := checkAllTXIDs(e, res)
	res.Sig = fmt.Sprintf("D-%s-%s", s.Demo, s.Cfg.String())
	res.Nontrivial = restarted.Load() && distinctK >= 2
	res.Sample = map[string]any{"kind": "D", "demo": s.Demo, "cfg": s.Cfg.String(), "window_reached": fired.Load(), "wal_restarted_inside_window": restarted.Load(), "distinct_k": distinctK}
	return res
}

// checkAllTXIDs applies the C02 oracle to the replica of e. Returns the number
// of distinct ledger states seen.
func checkAllTXIDs(e *hist.Env, res *vf.Result) int {
	if err := e.Arch.Scan(e.RepPath); err != nil {
		res.Violate("l0-file-invalid", "level-0 file on the replica does not decode/verify: %v", err)
		return 0
	}
	l0 := oracle.ListLevel(e.RepPath, 0)
	maxL0 := 0
	for i, f := range l0 {
		res.Evals++
		if f.Min != f.Max {
			res.Violate("l0-not-single-txid", "level-0 file %s covers more than one TXID", f)
		}
		if f.Min != i+1 {
			res.Violate("l0-gap", "level-0 TXIDs are not gapless from 1: position %d holds %s", i+1, f)
			return 0
		}
		maxL0 = f.Max
	}
	targets := map[int]bool{}
	// every integer TXID; for very long concurrent runs a deterministic stride
	// over level-0 TXIDs (all TXIDs advertised by derived files are always kept)
	stride := 1
	if maxL0 > 400 {
		stride = (maxL0 + 399) / 400
		res.Count("l0_txids_sampled_with_stride", 1)
	}
	for n := 1; n <= maxL0; n += stride {
		targets[n] = true
	}
	targets[maxL0] = true
	delete(targets, 0)
	for _, f := range e.ReplicaFiles() {
		targets[f.Max] = true
	}
	var ns []int
	for n := range targets {
		ns = append(ns, n)
	}
	sort.Ints(ns)
	lastK := int64(-1)
	lastN := 0
	distinct := map[int64]bool{}
	rr := e.ReadReplica()
	for _, n := range ns {
		opt := litestream.NewRestoreOptions()
		opt.TXID = hist.TXID(n)
		img, err := hist.RestoreBytes(e.Ctx, rr, e.Dir, opt)
		res.Evals++
		res.Count("txid_restores", 1)
		if err != nil {
			res.Violate("txid-restore-failed", "TXID %d is listed on the replica but Restore(TXID=%d) fails: %v", n, n, err)
			continue
		}
		k, why := e.CheckConsistent(img)
		if why != "" {
			key := "txid-inconsistent"
			// attribution: is the level-0-only image of n consistent?
			if n <= e.Arch.Max() {
				if l0img, err := e.Arch.Image(n); err == nil {
					if _, why0 := e.CheckConsistent(l0img); why0 == "" {
						key = "txid-inconsistent:derived-file(L0-only image is consistent)"
					} else {
						key = "txid-inconsistent:l0-capture"
					}
				}
			}
			res.Violate(key, "Restore(TXID=%d) is not a committed state: %s", n, why)
			continue
		}
		// "exactly one state": the plan-chosen restore (which may go through a
		// snapshot or compacted file) must denote the same commit as applying
		// the level-0 files 1..n.
		if n <= e.Arch.Max() {
			if l0img, err := e.Arch.Image(n); err == nil {
				res.Evals++
				if k0, why0 := e.CheckConsistent(l0img); why0 == "" && k0 != k {
					res.Violate("txid-denotes-two-states", "TXID %d restores to commit k=%d through the replica's plan but to k=%d through level-0 files 1..%d", n, k, k0, n)
					continue
				}
			}
		}
		if k < lastK {
			res.Violate("txid-not-monotone", "TXID %d restores commit k=%d but lower TXID %d restored k=%d", n, k, lastN, lastK)
		}
		lastK, lastN = k, n
		distinct[k] = true
	}
	res.Count("distinct_k", len(distinct))
	return len(distinct)
}

// ---------------------------------------------------------------------------
// workload B

func runB(s spec, dir string, res *vf.Result) *vf.Result {
	rng := rand.New(rand.NewSource(s.Seed))
	e, err := hist.NewEnv(dir, s.Cfg, rng, res)
	if err != nil {
		res.HarnessErr = err.Error()
		return res
	}
	defer e.Close()
	mon := time.Duration(1+rng.Intn(4)) * time.Millisecond
	rmon := time.Duration(1+rng.Intn(4)) * time.Millisecond
	ci := []time.Duration{0, 5 * time.Millisecond, time.Hour}[rng.Intn(3)]
	e.Tune = func(db *litestream.DB) {
		db.MonitorInterval = mon
		if s.Kind == "S" {
			// no background WAL sync: only the explicit checkpoint/snapshot pairs (and
			// their internal syncs) run against the live writer
			db.MonitorInterval = 0
		}
		db.BusyTimeout = 200 * time.Millisecond
		if s.Kind == "S" && s.Seed%2 == 0 {
			// litestream's own statements after a checkpoint (bookkeeping write,
			// boundary lock) then often fail with SQLITE_BUSY against the live
			// writer: the "checkpoint interrupted after it ran" window
			db.BusyTimeout = time.Millisecond
		}
		db.CheckpointInterval = ci
		db.Replica.MonitorEnabled = true
		db.Replica.SyncInterval = rmon
	}
	if s.Seed%3 != 0 {
		e.Wrap = func(c litestream.ReplicaClient) litestream.ReplicaClient {
			return &slowSnapshots{ReplicaClient: c, perChunk: time.Duration(1+rng.Intn(3)) * time.Millisecond}
		}
		res.Count("runs_with_slow_snapshot_uploads", 1)
	}
	// the writer uses its own connection with a longer busy timeout
	e.W.Close()
	w, err := sq.Open(e.DBPath, 2000, 4, 1)
	if err != nil {
		res.HarnessErr = err.Error()
		return res
	}
	e.W = w
	if err := e.StartLS(); err != nil {
		res.HarnessErr = "open litestream: " + err.Error()
		return res
	}
	ctx := context.Background()
	var hmu sync.Mutex
	stop := make(chan struct{})
	var wg sync.WaitGroup
	var commits, rollbacks, maint atomic.Int64
	var werr atomic.Value
	wg.Add(1)
	go func() { // writer
		defer wg.Done()
		r := rand.New(rand.NewSource(s.Seed * 7))
		k := e.K
		blob := func(n int) []byte { b := make([]byte, n); r.Read(b); return b }
		for {
			select {
			case <-stop:
				return
			default:
			}
			tx, err := w.Begin()
			if err != nil {
				continue
			}
			n := 1 + r.Intn(4)
			var ex error
			for i := 0; i < n && ex == nil; i++ {
				switch r.Intn(4) {
				case 0, 1:
					sz := []int{20, 600, 6000}[r.Intn(3)]
					_, ex = tx.Exec(`INSERT INTO t1(v) VALUES(?)`, blob(sz))
					if ex == nil {
						_, ex = tx.Exec(`INSERT INTO t2(v) VALUES(?)`, blob(sz))
					}
				case 2:
					_, ex = tx.Exec(`DELETE FROM t1 WHERE id IN (SELECT id FROM t1 ORDER BY id LIMIT 3)`)
					if ex == nil {
						_, ex = tx.Exec(`DELETE FROM t2 WHERE id IN (SELECT id FROM t2 ORDER BY id LIMIT 3)`)
					}
				case 3:
					_, ex = tx.Exec(`UPDATE t1 SET v=? WHERE id%5=0`, blob(30))
				}
			}
			if ex != nil || r.Intn(6) == 0 {
				if ex == nil {
					_, _ = tx.Exec(`INSERT INTO t0(id,v) VALUES(?,?)`, -1-int64(r.Intn(1000000)), blob(5000))
				}
				_ = tx.Rollback()
				rollbacks.Add(1)
				continue
			}
			if _, ex = tx.Exec(`UPDATE ledger SET k=?`, k+1); ex != nil {
				_ = tx.Rollback()
				continue
			}
			d, ex := sq.DumpConn(ctx, txq{tx}, false)
			if ex != nil {
				_ = tx.Rollback()
				werr.Store(ex.Error())
				continue
			}
			if ex = tx.Commit(); ex != nil {
				continue
			}
			k++
			hmu.Lock()
			e.Hashes[k] = d.Hash
			e.K = k
			hmu.Unlock()
			commits.Add(1)
			if r.Intn(3) == 0 {
				time.Sleep(time.Duration(r.Intn(2000)) * time.Microsecond)
			}
		}
	}()
	wg.Add(1)
	go func() { // one maintenance goroutine: operations are sequential among themselves, concurrent with writer and monitors
		defer wg.Done()
		r := rand.New(rand.NewSource(s.Seed*13 + 1))
		for {
			select {
			case <-stop:
				return
			default:
			}
			var err error
			var name string
			if s.Kind == "S" {
				// a checkpoint (non-PASSIVE modes run without a write barrier; with the 1 ms busy timeout
				// the bookkeeping write after any mode often fails), immediately followed by a snapshot
				m := []string{"FULL", "RESTART", "TRUNCATE", "PASSIVE", "PASSIVE"}[r.Intn(5)]
				if err := e.LS.Checkpoint(ctx, m); err == nil {
					hmu.Lock()
					res.Count("S_checkpoint_"+m+"_ok", 1)
					hmu.Unlock()
				} else if strings.Contains(err.Error(), "wal restarted during copy") {
					// the application restarted a completely checkpointed WAL while
					// litestream was copying its frames: the copy was refused
					hmu.Lock()
					res.Count("S_sync_refused_wal_restarted_during_copy", 1)
					hmu.Unlock()
				}
				if _, err := e.LS.Snapshot(ctx); err == nil {
					hmu.Lock()
					res.Count("S_snapshot_ok", 1)
					hmu.Unlock()
				} else if strings.Contains(err.Error(), "wal restarted during copy") {
					hmu.Lock()
					res.Count("S_snapshot_refused_wal_restarted_during_copy", 1)
					hmu.Unlock()
				}
				maint.Add(1)
				time.Sleep(time.Duration(r.Intn(3)) * time.Millisecond)
				continue
			}
			switch r.Intn(6) {
			case 0:
				name = "snapshot"
				_, err = e.LS.Snapshot(ctx)
			case 1:
				m := hist.CheckpointModes[r.Intn(4)]
				name = "checkpoint_" + m
				err = e.LS.Checkpoint(ctx, m)
			case 2:
				name = "compact1"
				_, err = e.LS.Compact(ctx, 1)
			case 3:
				name = "sync"
				err = e.LS.Sync(ctx)
			case 4:
				name = "syncwait"
				err = e.LS.SyncAndWait(ctx)
			case 5:
				name = "compact2"
				_, err = e.LS.Compact(ctx, 2)
			}
			if err == nil {
				hmu.Lock()
				res.Count("B_"+name+"_ok", 1)
				hmu.Unlock()
			}
			maint.Add(1)
			time.Sleep(time.Duration(r.Intn(5)) * time.Millisecond)
		}
	}()
	time.Sleep(time.Duration(s.RunMs) * time.Millisecond)
	close(stop)
	wg.Wait()
	if v := werr.Load(); v != nil {
		res.HarnessErr = "writer dump: " + v.(string)
		return res
	}
	var ferr error
	for i := 0; i < 5; i++ {
		if ferr = e.LS.SyncAndWait(ctx); ferr == nil {
			break
		}
		time.Sleep(50 * time.Millisecond)
	}
	cctx, cancel := context.WithTimeout(ctx, 60*time.Second)
	cerr := e.LS.Close(cctx)
	cancel()
	e.Logf("workload B: commits=%d rollbacks=%d maintenance ops=%d final sync err=%v close err=%v", commits.Load(), rollbacks.Load(), maint.Load(), ferr, cerr)
	res.Count("B_commits", int(commits.Load()))
	res.Count("B_rollbacks", int(rollbacks.Load()))
	distinctK := checkAllTXIDs(e, res)
	res.Sig = fmt.Sprintf("%s-%d-%s", s.Kind, s.Seed, s.Cfg.String())
	res.Nontrivial = commits.Load() >= 20 && distinctK >= 3
	res.Sample = map[string]any{"kind": s.Kind, "cfg": s.Cfg.String(), "monitor_ms": mon.Milliseconds(), "commits": commits.Load(), "rollbacks": rollbacks.Load(), "maintenance_ops": maint.Load(), "distinct_k": distinctK}
	return res
}

// slowSnapshots is a ReplicaClient wrapper that consumes the stream of level-9
// (snapshot) uploads slowly, as a remote store would: the snapshot reader stays
// open -- and litestream's checkpoint lock stays held -- while the application
// keeps committing and the monitor keeps syncing and trying to checkpoint.
type slowSnapshots struct {
	litestream.ReplicaClient
	perChunk time.Duration
}

type slowReader struct {
	r     io.Reader
	d     time.Duration
	spent time.Duration
}

func (s *slowReader) Read(p []byte) (int, error) {
	if len(p) > 4096 {
		p = p[:4096]
	}
	if s.spent < 300*time.Millisecond {
		time.Sleep(s.d)
		s.spent += s.d
	}
	return s.r.Read(p)
}

func (c *slowSnapshots) WriteLTXFile(ctx context.Context, level int, minTXID, maxTXID ltx.TXID, r io.Reader) (*ltx.FileInfo, error) {
	if level == litestream.SnapshotLevel {
		r = &slowReader{r: r, d: c.perChunk}
	}
	return c.ReplicaClient.WriteLTXFile(ctx, level, minTXID, maxTXID, r)
}

type txq struct{ tx *sql.Tx }

func (t txq) QueryContext(ctx context.Context, q string, args ...any) (*sql.Rows, error) {
	return t.tx.QueryContext(ctx, q, args...)
}
func (t txq) QueryRowContext(ctx context.Context, q string, args ...any) *sql.Row {
	return t.tx.QueryRowContext(ctx, q, args...)
}
