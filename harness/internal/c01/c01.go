// Package c01: an acknowledged sync restores to exactly the source (DESIGN §4 C01).
package c01

import (
	"context"
	"crypto/sha256"
	"encoding/json"
	"fmt"
	"math/rand"
	"strings"
	"time"

	"verif/harness/internal/hist"
	"verif/harness/internal/oracle"
	"verif/harness/internal/vf"
)

type spec struct {
	Seed   int64       `json:"seed"`
	Ops    int         `json:"ops"`
	Cfg    hist.Config `json:"cfg"`
	Daemon bool        `json:"daemon"` // acks through Store.SyncDB / the /sync endpoint
	// DiskFull: the litestream meta directory lives on its own small tmpfs that is filled
	// for the duration of 1-2 litestream operations now and then (local ENOSPC episodes)
	DiskFull bool `json:"disk_full,omitempty"`
	// Demo "close-never-initialised": pinned demonstration of the listed finding
	// (an application write transaction is open from before litestream starts until
	// just before Close, so litestream never manages to initialise)
	Demo string `json:"demo,omitempty"`
}

func init() {
	vf.Register(&vf.Check{
		ID:    "C01",
		Level: "exploration",
		Rule: "generated histories (seeded PRNG) over {app write kinds, rollback with spilled frames, DDL, VACUUM, incremental_vacuum, app checkpoints in 4 modes, app reconnect, open write txn / long reader left open across litestream ops, DB.Sync, Replica.Sync, Checkpoint(mode), SyncAndWait, Store.SyncDB(wait), POST /sync wait, Close} x configuration lattice; " +
			"at every acknowledgement the restored bytes are compared with the checkpointed copy of the source (mask: page1[24:28], page1[92:100], _litestream_seq root page). " +
			"distinct = hash(config, op-type sequence); non-trivial = >=2 acknowledgements between which the source image changed",
		Assumptions: []string{"file replica client only (no network)", "modernc SQLite is the reference for the committed source state", "ltx decoder/LZ4 trusted"},
		Cases:       cases,
		RunCase:     runCase,
		MinEvals:    20,
		CaseTimeout: 10 * time.Minute,
	})
}

func cases(run *vf.Run) ([]json.RawMessage, error) {
	n := 64
	if run.Tier == "thorough" {
		n = 1500
	}
	var out []json.RawMessage
	out = append(out, vf.Spec(spec{Seed: 1, Ops: 0, Cfg: hist.Config{PageSize: 4096, MinCheckpointPageN: 1000}, Demo: "close-never-initialised"}))
	for i := 0; i < n; i++ {
		rng := rand.New(rand.NewSource(vf.SubSeed(run.Seed, "C01", i)))
		cfg := hist.RandomConfig(rng)
		// page sizes and auto_vacuum cells rotate deterministically so every cell is hit
		cfg.PageSize = hist.PageSizes[i%len(hist.PageSizes)]
		cfg.AutoVacuum = (i / len(hist.PageSizes)) % 3
		cfg.SecureDelete = i%5 == 1 // freed pages zero-filled: databases that contain and end in all-zero pages
		s := spec{Seed: vf.SubSeed(run.Seed, "C01-case", i), Ops: 30 + rng.Intn(50), Cfg: cfg, Daemon: i%4 == 3}
		out = append(out, vf.Spec(s))
	}
	// histories with local disk-full episodes (appended: the cases above keep their indices)
	nf := 24
	if run.Tier == "thorough" {
		nf = 400
	}
	for i := 0; i < nf; i++ {
		rng := rand.New(rand.NewSource(vf.SubSeed(run.Seed, "C01F", i)))
		cfg := hist.RandomConfig(rng)
		cfg.PageSize = hist.PageSizes[(i+5)%len(hist.PageSizes)]
		cfg.AutoVacuum = i % 3
		if i%2 == 0 {
			cfg.MinCheckpointPageN = []int{2, 5}[rng.Intn(2)]
		}
		out = append(out, vf.Spec(spec{Seed: vf.SubSeed(run.Seed, "C01F-case", i), Ops: 40 + rng.Intn(40), Cfg: cfg, Daemon: i%4 == 3, DiskFull: true}))
	}
	return out, nil
}

func runCase(run *vf.Run, raw json.RawMessage, dir string) *vf.Result {
	var s spec
	res := &vf.Result{}
	if err := json.Unmarshal(raw, &s); err != nil {
		res.HarnessErr = err.Error()
		return res
	}
	rng := rand.New(rand.NewSource(s.Seed))
	e, err := hist.NewEnv(dir, s.Cfg, rng, res)
	if err != nil {
		res.HarnessErr = err.Error()
		return res
	}
	defer e.Close()
	faults := s.DiskFull
	if faults {
		if err := e.MountMeta(64); err != nil {
			res.Count("local_fault_unavailable(mount failed)", 1)
			res.Logf("no disk-full episodes in this history: %v", err)
			faults = false
		}
	}
	var dmn *hist.Daemon
	if s.Daemon {
		dmn, err = e.StartDaemon(nil)
	} else {
		err = e.StartLS()
	}
	if err != nil {
		res.HarnessErr = "open litestream: " + err.Error()
		return res
	}
	ctx := context.Background()
	var ops []string
	changedAcks := 0
	var lastImgHash [32]byte
	fail := func(v string, herr error) bool {
		if herr != nil {
			res.HarnessErr = herr.Error()
			return true
		}
		if v != "" {
			res.Violate("ack-restore-differs", "%s [%s]", v, s.Cfg)
			return true
		}
		return false
	}
	ack := func(tag string) bool {
		src, err := e.SourceImage()
		if err == nil {
			h := sha256.Sum256(src)
			if h != lastImgHash {
				changedAcks++
				lastImgHash = h
			}
		}
		return fail(e.AckCompare(tag))
	}
	if s.Demo == "close-never-initialised" {
		// application holds a write transaction from the start; every litestream sync
		// fails with SQLITE_BUSY while creating its bookkeeping table; the application
		// commits; clean shutdown
		if err := e.ToggleOpenTx(); err != nil {
			res.HarnessErr = err.Error()
			return res
		}
		for i := 0; i < 3; i++ {
			err := e.LS.SyncAndWait(ctx)
			e.Logf("SyncAndWait err=%v", err)
		}
		if err := e.EndOpenTx(true); err != nil {
			res.HarnessErr = err.Error()
			return res
		}
		ops = append(ops, "demo")
	}
	fullLeft := 0 // litestream operations left in the current disk-full episode
	failedFull := 0
	lsErr := func(err error) {
		if err != nil && e.MetaIsFull() {
			failedFull++
		}
	}
	for i := 0; i < s.Ops; i++ {
		r := rng.Intn(30)
		if faults && !e.MetaIsFull() && rng.Intn(8) == 0 {
			if err := e.MetaFull(true); err != nil {
				res.HarnessErr = "harness: fill meta fs: " + err.Error()
				return res
			}
			fullLeft = 1 + rng.Intn(2)
			res.Count("diskfull_episodes", 1)
			e.Logf("meta directory file system is now full")
			ops = append(ops, "diskfull-on")
			if rng.Intn(2) == 0 {
				r = 16 + rng.Intn(14) // a litestream operation right away
			}
		}
		if e.MetaIsFull() && r >= 16 {
			fullLeft--
		}
		var op string
		switch {
		case r < 9:
			op = "write"
			if _, err := e.AppWrite(); err != nil {
				res.HarnessErr = err.Error()
				return res
			}
		case r < 10:
			op = "maint"
			e.Maint()
		case r < 12:
			op = "appckpt"
			e.AppCheckpoint(hist.CheckpointModes[rng.Intn(4)])
		case r < 14:
			op = "otx"
			if err := e.ToggleOpenTx(); err != nil {
				res.HarnessErr = err.Error()
				return res
			}
		case r < 15:
			op = "reader"
			e.ToggleReader()
		case r < 16:
			op = "reconnect"
			if !e.Pinned() {
				e.CloseApp()
				if err := e.OpenApp(); err != nil {
					res.HarnessErr = err.Error()
					return res
				}
				e.Logf("app reconnect (all connections closed and reopened)")
				res.Count("app_reconnect", 1)
			}
		case r < 19:
			op = "sync"
			err := e.LS.Sync(ctx)
			e.Logf("DB.Sync err=%v", err)
			lsErr(err)
		case r < 20:
			op = "rsync"
			err := e.LS.Replica.Sync(ctx)
			e.Logf("Replica.Sync err=%v", err)
		case r < 22:
			mode := hist.CheckpointModes[rng.Intn(4)]
			op = "ckpt-" + mode
			err := e.LS.Checkpoint(ctx, mode)
			e.Logf("DB.Checkpoint(%s) err=%v", mode, err)
			lsErr(err)
			if err == nil {
				res.Count("ls_checkpoint_"+mode, 1)
			}
		default:
			op = "ack"
			var err error
			switch {
			case dmn != nil && rng.Intn(2) == 0:
				err = dmn.SyncWait(e.DBPath)
				e.Logf("POST /sync wait err=%v", err)
				if err == nil {
					res.Count("ack_http_sync_wait", 1)
				}
			case dmn != nil:
				_, err = dmn.Store.SyncDB(ctx, e.DBPath, true)
				e.Logf("Store.SyncDB(wait) err=%v", err)
				if err == nil {
					res.Count("ack_store_syncdb", 1)
				}
			default:
				err = e.LS.SyncAndWait(ctx)
				e.Logf("SyncAndWait err=%v", err)
				if err == nil {
					res.Count("ack_sync_and_wait", 1)
				}
			}
			if err == nil {
				if e.Pinned() {
					res.Count("ack_with_open_txn_or_reader", 1)
				}
				if ack(fmt.Sprintf("op%d", i)) {
					return res
				}
			} else {
				res.Count("sync_wait_failed", 1)
				lsErr(err)
			}
		}
		ops = append(ops, op)
		if e.MetaIsFull() && fullLeft <= 0 {
			if err := e.MetaFull(false); err != nil {
				res.HarnessErr = "harness: free meta fs: " + err.Error()
				return res
			}
			e.Logf("meta directory file system has space again")
			ops = append(ops, "diskfull-off")
		}
	}
	if err := e.MetaFull(false); err != nil {
		res.HarnessErr = "harness: free meta fs: " + err.Error()
		return res
	}
	if s.DiskFull {
		res.Count("litestream_calls_failed_while_disk_full", failedFull)
	}
	// final: unpin, close (a clean shutdown that returns nil is an acknowledgement)
	if err := e.EndOpenTx(rng.Intn(2) == 0); err != nil {
		res.HarnessErr = err.Error()
		return res
	}
	e.EndReader()
	if rng.Intn(2) == 0 {
		if _, err := e.AppWrite(); err != nil {
			res.HarnessErr = err.Error()
			return res
		}
	}
	// Listed finding (F27): Close skips its final sync for a database litestream has
	// never been able to initialise (no connection yet), and returns nil.
	neverInit := e.LS.SQLDB() == nil
	cctx, cancel := context.WithTimeout(ctx, 60*time.Second)
	if dmn != nil {
		err = dmn.Close(cctx)
	} else {
		err = e.LS.Close(cctx)
	}
	cancel()
	e.Logf("Close err=%v", err)
	if err == nil {
		res.Count("ack_close", 1)
		if neverInit {
			res.Count("ack_close_of_never_initialised_database", 1)
			if v, herr := e.AckCompare("close"); herr != nil {
				res.HarnessErr = herr.Error()
				return res
			} else if v != "" {
				res.Violate("ack-restore-differs:close-of-never-initialised-database", "%s; litestream had not been able to initialise the database before Close (every sync failed, e.g. SQLITE_BUSY against a long application transaction), Close skipped its final sync and returned nil [%s]", v, s.Cfg)
				return res
			}
		} else if ack("close") {
			return res
		}
	} else {
		res.Count("close_failed", 1)
	}
	// coverage evidence from L0 headers / captured log
	for msg, n := range e.Logs.Snapshot() {
		switch {
		case strings.Contains(msg, "reason="):
			res.Count("log:"+trim(msg), n)
		case strings.Contains(msg, "checkpoint"):
			res.Count("log:"+trim(msg), n)
		}
	}
	for _, f := range oracle.ListLevel(e.RepPath, 0) {
		if lf, err := oracle.DecodeLTX(f.Path); err == nil {
			if f.Min > 1 && uint32(len(lf.Pages)) >= lf.Hdr.Commit-1 && lf.Hdr.Commit > 3 {
				res.Count("l0_full_snapshot_in_chain", 1)
			} else {
				res.Count("l0_incremental", 1)
			}
		}
	}
	res.Count(fmt.Sprintf("page_size_%d", s.Cfg.PageSize), 1)
	res.Sig = fmt.Sprintf("%x", sha256.Sum256([]byte(s.Cfg.String()+strings.Join(ops, ","))))[:16]
	res.Nontrivial = changedAcks >= 2
	res.Sample = map[string]any{"cfg": s.Cfg.String(), "daemon": s.Daemon, "ops": strings.Join(ops, " "), "acks_with_changed_source": changedAcks}
	return res
}

func trim(s string) string {
	if len(s) > 70 {
		return s[:70]
	}
	return s
}
