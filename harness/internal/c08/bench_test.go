package c08

import (
	"testing"

	"verif/harness/internal/vf"
)

func BenchmarkExh(b *testing.B) {
	for i := 0; i < b.N; i++ {
		res := &vf.Result{}
		e := newEvaluator(res)
		runExh(spec{Kind: "exh", N: 3, MaxFiles: 5, Times: 4, Stride: 256, Offset: 7}, e)
		b.ReportMetric(float64(res.Evals), "calls")
	}
}
