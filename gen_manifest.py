#!/usr/bin/env python3
"""Generates MANIFEST.json from the table below (kept in one place so it stays valid)."""
import json, os, subprocess

HERE = os.path.dirname(os.path.abspath(__file__))

CHECKS = {
 "C01": dict(level="exploration", engine="E-HIST", technique="runtime monitoring: differential byte oracle (restore vs checkpointed source copy) at every acknowledgement of generated histories",
   text="Every acknowledged sync in seeded random histories over the full C01 alphabet and configuration lattice is followed by a real Restore from the replica alone; the output is compared byte-for-byte with SQLite's own checkpointed copy of the source. Added histories: local disk-full episodes (the litestream meta directory on its own tmpfs, filled for the duration of 1-2 litestream operations) and application connections running with secure_delete (databases that contain and end in all-zero pages). Held on the histories explored, not proven.",
   note="file replica only; modernc SQLite as reference for committed state; mask limited to change counter, version bytes and the _litestream_seq root page", ref="§4 C01"),
 "C02": dict(level="exploration", engine="E-HIST", technique="runtime monitoring: ledger/dump-hash oracle over Restore(TXID=n) for every TXID after generated sequential interleavings and live concurrent-writer runs",
   text="After each generated history (syncs/checkpoints/snapshots/compactions while an application transaction with spilled uncommitted frames is open; live writer goroutine against monitor-driven litestream; checkpoint-then-snapshot stress) every TXID listed at any level is restored and must be exactly one committed application state, monotone in n, level 0 gapless from 1. Workload F adds local disk-full episodes around litestream operations (directed: everything copied, disk full, litestream checkpoint of each mode, space again, commits, Snapshot before the next sync). Held on the executions produced.",
   note="sha256 of the logical dump identifies a committed state; concurrent runs are real goroutine schedules (not enumerated); C12 applies the same oracle under the race detector", ref="§4 C02"),
 "C04": dict(level="exploration", engine="E-HIST", technique="runtime monitoring: differential byte oracle at the first acknowledgement after generated disturbances (stop/start, restart, offline activity, db replacement, meta loss/reset)",
   text="Histories = prefix + disturbance(s) from the cross product named by the property + suffix; the first acknowledged sync after each disturbance must restore byte-for-byte to the source, a successful sync must leave the replica at the database position, and level-0 files at or below the previous replica maximum must never be replaced. Disturbances also include a data-directory rollback (database, WAL and meta directory together) and a rollback of the database file with its WAL while the meta directory stays (arbitrary, frame-aligned and identical-prefix shapes), and offline rounds in which the application restarts the WAL several times. Pinned demonstrations for F36 (known finding: byte-identical page image at the cursor after such a rollback) and F37 (WAL restarted more than once, fixed). Held on the histories explored.",
   note="the application is the only writer while litestream is down; file replica only", ref="§4 C04"),
 "C06": dict(level="exploration", engine="E-HIST", technique="runtime monitoring: independent re-composition of archived level-0 files compared with every compacted/snapshot file and with Restore(TXID=n)",
   text="Every file at level>=1 produced in generated histories (1..8 level layouts, DB.Compact and Store.CompactDB, shrinking databases, in-chain full snapshots) is decoded and compared page-for-page, Commit and timestamp with the overlay of the archived level-0 files of its range; levels must be contiguous; Restore(TXID=n) must equal image_n before and after each compaction. Histories include process restarts (plain and of the whole Store) between compactions, and pinned histories in which the application checkpoints while litestream is closed or while its first sync after reopening fails (disk full, or only the first chunks of a chunked catch-up fit), followed by a Snapshot; a litestream checkpoint issued with a request-scoped context that is cancelled after the call; a snapshot stream read across a concurrent Close.",
   note="ltx.Decoder (framing/LZ4/checksums) trusted; overlay logic independent of ltx.Compactor", ref="§4 C06"),
 "C10": dict(level="fault_enumeration", engine="E-FAULT", technique="runtime monitoring under fault injection: single corruptions at enumerated offsets of every plan file and read-fault schedules, restore result compared with reference bytes",
   text="For replicas produced by histories: delete/truncate/flip at enumerated offsets of every plan file, read-fault schedules within and beyond the retry budget, checksum-valid payload corruption (integrity check), pre-existing output paths. Restore must return an error with no output, or the exact reference bytes; a dying process is a violation. Half of the mid-stream faults hand out their last bytes together with the error (n>0 with a non-nil error). Truncations of a plan file (to 0, 1, 50 bytes) are also judged against an unpinned latest-state restore: a file that is present but cut short must make it fail.",
   note="pinned target TXID; quick tier samples offsets of large files (structure boundaries +-8 plus PRNG sample), thorough enumerates every offset of small files", ref="§4 C10"),
 "C13": dict(level="exploration", engine="E-HIST", technique="runtime monitoring: WAL frame-count bound (reference WAL decoder) after every successful sync and LTX-file count across idle syncs",
   text="Generated write/sync histories over the threshold lattice; after every successful sync with nothing pinned SQLite's mxFrame must be <= the lowest configured threshold; 10 idle syncs may create at most 6 files and none in syncs 7..10. Fault histories add syncs that fail because the local staging area is full and snapshot uploads that break partway; after the fault the next successful sync has to restore the bound (a blocked checkpoint shows up as a deadlocked process).",
   note="frames counted up to the last valid commit frame of the current WAL generation", ref="§4 C13"),
 "C19": dict(level="exploration", engine="E-GEN", technique="runtime monitoring: generated v0.3.x layouts restored by the real code and compared with a reference recomputed by real SQLite from the generator's records",
   text="Legacy layouts generated from real SQLite histories (several generations, snapshots at several indices, WAL files split at arbitrary offsets, any one segment or index removed, all planted times, mixed with current-format replicas); the restored bytes must equal the state computed independently from the generator's records, gaps must produce errors, format arbitration must pick the more recent eligible backup (layouts: legacy entirely older, current format entirely older, current-format files between the newest legacy snapshot and later legacy WAL segments). One transient failure of each v0.3.x listing call during a latest restore (plain error, and identical bytes delivered together with an error) must yield either the fault-free result or an error.",
   note="removal of the last segment of a non-final index is undetectable from a 0.3.x listing and is only counted; planted mtimes", ref="§4 C19"),
 "C07": dict(level="exploration", engine="E-HIST", technique="runtime monitoring: invariants + differential restore after every retention pass of generated histories with planted file ages",
   text="Generated histories over {write, sync, compact, snapshot, all retention entry points (DB, Store, stand-alone Compactor), RetentionEnabled on/off} with file ages planted around the thresholds in arbitrary orders; after every pass the latest restore must equal the level-0 image, a snapshot must survive once one exists, surviving L0 files must be one contiguous run ending at the newest, and replication must continue.",
   note="ages planted >= 10 min from any threshold so no verdict depends on run time; direct EnforceRetentionByTXID floors limited to what the statement covers", ref="§4 C07"),
 "C09": dict(level="exploration", engine="E-GEN", technique="runtime monitoring: differential against real SQLite WAL recovery (and an independent reference decoder) on mutated real WAL files",
   text="Real (db, WAL) pairs of all page sizes are mutated by every class named in the property; WALReader.PageMap and the byte-budgeted chunked reads from every commit-boundary start offset, chained exactly like DB.sync, must reproduce the image SQLite itself recovers; chunk ends must be commit frames; union of chunks must equal the unchunked map.",
   note="modernc SQLite recovery is the oracle (cross-checked against C SQLite 3.40.1 on a sample); forged commit sizes that break invariants of every SQLite-written WAL are executed and counted but not judged", ref="§4 C09"),
 "C15": dict(level="exploration", engine="E-HIST", technique="runtime monitoring: timestamp restores at/around every recorded replication time compared with the level-0 image oracle",
   text="Generated histories with and without compaction/retention; Restore(Timestamp=T) for T at, just before/after and between the recorded header timestamps of every TXID must equal image_n for an n replicated before T, never newer, exactly the last one when all L0 files exist, monotone in T, and fail before the first backup. Live variant: timestamp restores and Snapshot calls overlap monitor-driven replication behind delaying proxies; every result is judged afterwards against recorded header times and the recorded publication order.",
   note="replication time = LTX header timestamp read back from archived files; mtimes are never touched", ref="§4 C15"),
 "C08": dict(level="exploration", engine="E-GEN", technique="runtime monitoring: the real planner is run on enumerated/generated file sets and every answer is judged by an independent reachability oracle",
   text="CalcRestorePlan is driven with an in-memory listing client over all file sets of <=5 files over TXIDs 1..3 at levels {0,1,2,9} with all creation-time assignments and all requests (exhaustive), plus seeded random sets up to 8 TXIDs / 14 files; each plan must be a valid chain of eligible files ending at the target, must exist whenever the oracle finds a chain, and 'latest' must report gaps.",
   note="exhaustive only for the stated small space; the gap clause is not demanded for timestamp requests (statement is silent)", ref="§4 C08"),
 "C20": dict(level="exploration", engine="E-LEASE", technique="runtime monitoring: request-level schedule enumeration over real s3.Leaser instances with an online belief-set invariant, plus porcupine linearizability checking of free-running histories under the race detector",
   text="Real Leaser instances over one in-memory conditional-write store; every request blocks until the scheduler grants it. All interleavings of 2 instances x programs of <=3 operations x TTL classes are visited (exhaustive), plus random 3-client schedules and free-running histories checked with porcupine; after every request at most one live-believed holder may exist, taken-over instances must get ErrLeaseNotHeld, generations must increase. Near-expiry pairs (holder TTL 0.8-2.5 s, immediate competing acquire) are judged on the recorded ExpiresAt against a clock reading taken after the competing acquire returned.",
   note="S3 conditional-write semantics are modelled by the in-memory store (If-Match / If-None-Match, 412/404); lease liveness is a class (+1h/-1h), never a clock reading", ref="§4 C20"),
 "C12": dict(level="exploration", engine="E-CONC", technique="runtime monitoring: Go race detector + progress-confirmed watchdog + lock/fd probes + porcupine registry model + C01/C02/snapshot oracles over concurrent stress runs of one Store with live writers",
   text="N goroutines draw from the daemon's whole operation set (incl. the control socket) against one Store with live application writers, monitors at millisecond intervals and delays injected inside storage calls; zero race reports with a litestream frame, no stuck operation, no leaked read lock or descriptor after Close/Unregister, exactly one instance per path (porcupine), and afterwards the final acknowledgement restores to the source, every TXID is a consistent committed state and every level-9 file equals the level-0 image of its TXID. Acknowledgements observed while the writers run (SyncAndWait, Store.SyncDB(wait), POST /sync wait) are checked afterwards: every commit that had returned before the call must be in the replica as published when the call returned. The writers also checkpoint from the application side; the source itself must end with every returned commit and pass integrity_check. A registration storm (16 concurrent registrations of one path under registry-lock contention, repeated) follows each run. Restore(latest) calls run concurrently with everything else and are judged afterwards (success must be a committed state, a failure must leave nothing at the output path); the final source must have an empty _litestream_lock table; every third stress case injects storage faults (failing listings, downloads and uploads) on top of the delays.",
   note="real goroutine schedules, not enumerated; runs are sized by completed calls with a wall-clock cap; restores per run are capped and the cap is stated in the evidence", ref="§4 C12"),
 "C16": dict(level="fault_enumeration", engine="E-CRASH", technique="runtime monitoring under process kills: ptrace supervisor kills the follower before each fs-mutating syscall; byte comparison with an ordinary restore at quiescence; sidecar monotonicity",
   text="A follower process (Restore with Follow) is driven poll by poll against staged primary histories with compaction, snapshots and retention; it is killed before every file-system-mutating syscall of its apply/sidecar cycles (and in the window between publishing the database and its first sidecar), restarted, and must converge byte-for-byte (masked header bytes) to Restore(TXID=replica max) without its sidecar ever regressing; graceful stop/restart histories run alongside (a restart is inside the property whenever every TXID above the sidecar is still covered by levels 0..8, also when the sidecar lies below the oldest level-9 snapshot), including one with a database larger than 4 GiB (64 KiB pages) whose followed transactions touch pages above the 4 GiB mark.",
   note="SIGKILL of the process (page cache survives); poll cycles are counted logically through a counting ReplicaClient proxy in the victim; wall-clock limits only produce inconclusive", ref="§4 C16"),
 "C03": dict(level="fault_enumeration", engine="E-CRASH", technique="runtime monitoring under process kills: ptrace supervisor kills the litestream process immediately before the Nth file-system-mutating syscall; post-kill file verification, restore of the last acknowledged TXID, restart and differential ack",
   text="Scripted victim scenarios (sync/upload with checkpoints, compaction + snapshot, retention, restore, baseline fetch after meta loss, data-dir rollback, follow mode; the real litestream binary in the thorough tier) are killed before every (quick: every point of two scenarios plus boundaries and a PRNG sample of the others) fs-mutating syscall; afterwards every *.ltx under a final name must verify, restore outputs and sidecars must be complete, the last acknowledged TXID must restore to the image recorded at its acknowledgement, and a restarted victim must acknowledge a new sync that restores to the source.",
   note="SIGKILL of the process (page cache survives; the power-loss half is C11's); the application lives in the driver and is never killed", ref="§4 C03"),
 "C05": dict(level="fault_enumeration", engine="E-FAULT", technique="runtime monitoring under fault injection: seeded per-call fault schedules on a recording ReplicaClient proxy; gaplessness, ack=>stored, consistent restorability after every step, catch-up after faults stop",
   text="Generated histories (writes, syncs, uploads, compactions, snapshots, Close with shutdown retry, meta-loss restarts) run over a proxy that injects {fail-before-effect, fail-after-effect, short-read, mid-stream error, premature EOF} per call; after every client call level 0 must be gapless, every acknowledgement must be stored and restore to the source, the replica must stay restorable to a consistent ledger state, and after faults stop replication must catch up. Histories include run-time ResetLocalState under faults; half of the injected download faults deliver their last bytes together with the error; after every step no compaction level may have a hole (overlapping files are legitimate after an upload that took effect but was reported as failed); directed cases make level-1/level-2 uploads fail once in each way (before effect, partial, after effect) while the process keeps running.",
   note="fault schedules are seeded classes (5/30/80 %, bursts, per-op targeting), not all assignments; fault-free view for restores", ref="§4 C05"),
 "C11": dict(level="exploration", engine="E-TRACE", technique="runtime monitoring: strace log of the litestream process checked offline against write->fsync->rename->fsync(dir)->report ordering rules and a durable-set model for unlinks",
   text="The C03 victim scenarios (plus variants where nothing else is published in the same call) are traced with strace; for every rename to a published name the source must have been fsynced after its last modification (R1) and the directory fsynced before success is reported (R2); for every unlink the set of durably stored files minus the victim must still contain a valid restore chain to the highest acknowledged TXID (R3). T5 traces the v0.3.x restore path (snapshot-only and snapshot+WAL); T6 makes every fsync of the restoring process fail with EIO (strace fault injection): a failed fsync is not a flush; T7 restores to an output path without a directory component (the checker follows chdir).",
   note="checks that the calls are issued in a safe order, not that kernel/disk honour them", ref="§4 C11"),
 "C14": dict(level="exploration", engine="E-HIST", technique="runtime monitoring: differential replay of identical deterministic application histories with and without litestream; logical dump, bookkeeping tables, integrity and journal mode compared",
   text="The same seeded application history runs twice (control without litestream; treatment with syncs, checkpoints in all modes, snapshots, compactions, Close/Open inserted at PRNG-chosen points, also inside open application transactions, and as calls started inside an open application write transaction that are still in flight when the application commits); schema and rows of every non-litestream object, user_version, integrity_check, journal_mode must be equal and _litestream_lock must be empty at every quiescent point. Added: local disk-full episodes around litestream operations; an application statement that stays SQLITE_BUSY with no litestream call in flight is a violation; a cross-process scenario (application here, litestream in a process of its own) in which the application closes its last connection around every litestream operation, a third process asks the kernel (F_GETLK) who holds SQLite's shared lock on the database file, and the ledger is checked after reconnecting; databases the application created in rollback-journal mode (litestream switches them to WAL at its first sync; they must still be in WAL mode after litestream closed with the application gone).",
   note="application statements that hit SQLITE_BUSY in the treatment are retried so both runs commit the same transactions", ref="§4 C14"),
 "C17": dict(level="exploration", engine="E-HIST", technique="runtime monitoring: >1 GiB databases replicated and restored; every LTX file stream-scanned for the lock page, restored file stream-compared with the source",
   text="Databases just below 1 GiB are grown across / up to / beyond SQLite's lock page within one sync (and shrunk back so that they end exactly one page behind the lock page when full copies are taken from the database file), then snapshotted, compacted and restored; no LTX file may contain the lock page, every other page must restore exactly, the lock page must be zero.",
   note="quick tier uses page size 65536 only (four placements); thorough covers all eight page sizes", ref="§4 C17"),
 "C18": dict(level="exploration", engine="E-HIST", technique="runtime monitoring: every page and the file size served by a VFSFile compared with the level-0 image of its position at open and after deterministic poll points; SQL-level dump through a real SQLite connection on the registered VFS",
   text="Primary histories (growth, auto_vacuum/incremental shrink, VACUUM, compaction, level-0 retention of files being read) with a VFS file opened on the same replica; after open and after each hook-driven poll (also under a SHARED lock, and in time-travel mode) FileSize and every page read through ReadAt must equal the level-0 image of VFSFile.Pos() (masking only header bytes the VFS rewrites); time travel must equal the timestamp restore; a quarter of the histories also compare a logical dump through mattn SQLite on the registered VFS. A third of the histories run with hydration enabled (temporary and persistent hydration files; hydration held in flight or completed, observed through the VFS's log handler); SetTargetTime/ResetTime are also issued under a SHARED lock with staged poll updates; a hydration catch-up that runs 60 rounds without completing while the replica no longer changes is reported as non-convergence (logical count, no clock).",
   note="needs the vfs build variant (cgo); the VFS write path is not covered", ref="§4 C18"),
}

# properties not (yet) claimed: id -> reason
NOT_APPLICABLE = {}

def main():
    props = [json.loads(l)["id"] for l in open(os.path.join(HERE, "properties.jsonl"))]
    checks = []
    for pid in props:
        c = CHECKS.get(pid)
        if not c:
            continue
        checks.append({
            "property_id": pid,
            "quick_cmd": f"./check {pid} quick",
            "thorough_cmd": f"./check {pid} thorough",
            "evidence_file": f"/verif/evidence/{pid}.json",
            "replay_cmd_template": f"./check {pid} --replay {{path}}",
            "engine": c["engine"],
            "level_claimed": {"category": c["level"], "text": c["text"], "design_ref": c["ref"]},
            "level_note": c["note"],
            "technique": c["technique"],
        })
    na = []
    for pid in props:
        if pid not in CHECKS:
            na.append({"property_id": pid, "reason": NOT_APPLICABLE.get(pid, "check not built yet in this round; planned design in DESIGN.md §4 (runtime monitoring applies)")})
    hooks_commits = []
    try:
        out = subprocess.run(["git", "-C", "/repo", "log", "--format=%H %s"], capture_output=True, text=True).stdout
        hooks_commits = [l.split()[0] for l in out.splitlines() if " verif-hook:" in l]
    except Exception:
        pass
    m = {
        "version": 1,
        "setup_cmd": "./setup.sh",
        "hooks": {
            "guard": "verif (Go build tag)",
            "enable": "go build -tags verif (and -tags 'verif vfs' for C18); see build.sh",
            "baseline_off_cmd": "cd /repo && GOFLAGS=-mod=mod GOPROXY=off go test -vet=off -count=1 -timeout 25m ./...",
            "source_commits": hooks_commits,
            "add_only": True,
        },
        "engines": [
            {"name": "E-HIST", "path": "harness/internal/hist", "serves_properties": ["C01","C02","C04","C06","C07","C13","C14","C15","C17"], "kind_free_text": "sequential generated histories driving real SQLite connections and a real litestream DB; differential oracles"},
            {"name": "E-FAULT", "path": "harness/internal/proxy", "serves_properties": ["C05","C10"], "kind_free_text": "recording / fault-injecting ReplicaClient proxy"},
            {"name": "E-CRASH", "path": "ptsup", "serves_properties": ["C03","C16"], "kind_free_text": "ptrace supervisor killing the litestream process before the Nth fs-mutating syscall"},
            {"name": "E-TRACE", "path": "harness/internal/c11", "serves_properties": ["C11"], "kind_free_text": "strace log + offline ordering checker"},
            {"name": "E-CONC", "path": "harness/internal/c12", "serves_properties": ["C12","C02"], "kind_free_text": "go race detector under concurrent stress with delays injected at storage boundaries"},
            {"name": "E-GEN", "path": "harness/internal", "serves_properties": ["C08","C09","C19"], "kind_free_text": "input generators with independent reference oracles"},
            {"name": "E-LEASE", "path": "harness/internal/c20", "serves_properties": ["C20"], "kind_free_text": "request-level scheduler over real s3.Leaser instances + porcupine"},
        ],
        "checks": checks,
        "not_applicable": na,
        "notes": "All checks are runtime monitors over executions of the real code; see DESIGN.md. Exit 2 = inconclusive (watchdog/observed too little), never folded into held/violated.",
    }
    json.dump(m, open(os.path.join(HERE, "MANIFEST.json"), "w"), indent=1)
    print("wrote MANIFEST.json with", len(checks), "checks,", len(na), "not claimed")

if __name__ == "__main__":
    main()
