// ptsup: ptrace supervisor used by the crash engine (E-CRASH; checks C03, C16).
//
//   ptsup count <root> <logfile>     -- cmd args...
//       run cmd to completion and log every file-system-mutating system call whose
//       path lies under <root> (all threads and children, one global counter)
//   ptsup kill  <root> <logfile> <N> -- cmd args...
//       same, but SIGKILL the whole tracee tree at the syscall-enter stop of the N-th
//       such call, i.e. immediately before the call takes effect
//
// Log format (one line per counted call, written at the enter stop):
//       <count> <tid> <name> <path1> <path2|-> <flags-hex>
//   last line:  "KILL before <N>"            (kill performed; exit status 137)
//           or  "TOTAL <count> exit <code>"  (victim ended by itself; its status is passed on,
//                                             128+sig when it died from a signal)
//           or  "INTERRUPTED after <count>"  (the supervisor got SIGTERM/SIGINT/SIGHUP: it kills
//                                             the victim tree and exits 203)
// Exit status: 137 kill performed; victim status otherwise (values >= 200 are mapped to 199);
//   200 usage, 201 cannot trace/fork, 202 exec failed, 203 supervisor interrupted.
//
// What counts as fs-mutating: open/openat/openat2/creat with a write access mode or
// O_CREAT/O_TRUNC, write/pwrite64/writev/pwritev/pwritev2, copy_file_range, sendfile (out fd),
// fsync/fdatasync/sync_file_range, ftruncate/truncate/fallocate, rename/renameat/renameat2,
// unlink/unlinkat/rmdir, mkdir/mkdirat, link/linkat/symlink/symlinkat, utimensat/utimes/futimesat,
// fchown/fchownat/chown/lchown, fchmod/fchmodat/chmod. Writes through mmap (SQLite's -shm) are
// invisible to a syscall supervisor.
//
// Speed: by default the victim gets a seccomp-BPF filter that returns SECCOMP_RET_TRACE for the
// calls listed above only, so every other system call (futex, epoll, mmap, read, ...) runs
// untraced and the supervisor is woken just for candidates (PTRACE_EVENT_SECCOMP, which is
// reported before the call executes, like a syscall-enter stop). PTSUP_NOSECCOMP=1 selects the
// plain PTRACE_SYSCALL mode (every call stops twice); both modes count identically.
//
// Entry and exit stops are told apart with PTRACE_GET_SYSCALL_INFO (no per-thread toggle that
// could get out of step); the thread table only serves to recognise the initial SIGSTOP of a new
// thread and grows on demand.
#define _GNU_SOURCE
#include <errno.h>
#include <fcntl.h>
#include <limits.h>
#include <linux/audit.h>
#include <linux/filter.h>
#include <linux/seccomp.h>
#include <stddef.h>
#include <sys/prctl.h>
#include <signal.h>
#include <stdint.h>
#include <stdio.h>
#include <stdlib.h>
#include <string.h>
#include <sys/ptrace.h>
#include <sys/syscall.h>
#include <sys/types.h>
#include <sys/uio.h>
#include <sys/wait.h>
#include <unistd.h>

#define EXIT_USAGE 200
#define EXIT_TRACE 201
#define EXIT_EXEC 202
#define EXIT_INTR 203

// --- tid sets (open addressing, grow on demand; no fixed thread limit) -------------------------
struct tidset { pid_t *t; size_t cap, n; };
static size_t ts_slot(const struct tidset *s, pid_t tid, pid_t *t, size_t cap) {
  (void)s;
  size_t i = ((size_t)tid * 2654435761u) & (cap - 1);
  while (t[i] != 0 && t[i] != tid) i = (i + 1) & (cap - 1);
  return i;
}
static int ts_has(const struct tidset *s, pid_t tid) { return s->cap && s->t[ts_slot(s, tid, s->t, s->cap)] == tid; }
static void ts_add(struct tidset *s, pid_t tid) {
  if ((s->n + 1) * 2 > s->cap) {
    size_t ncap = s->cap ? s->cap * 2 : 256;
    pid_t *nt = calloc(ncap, sizeof *nt);
    if (!nt) { perror("ptsup: calloc"); exit(201); }
    for (size_t i = 0; i < s->cap; i++)
      if (s->t[i] > 0) nt[ts_slot(s, s->t[i], nt, ncap)] = s->t[i];
    free(s->t);
    s->t = nt;
    s->cap = ncap;
  }
  size_t i = ts_slot(s, tid, s->t, s->cap);
  if (s->t[i] != tid) { s->t[i] = tid; s->n++; }
}
// all: every tid ever seen (exited ones stay: a stale entry only costs a failing tkill);
// started: tids whose initial SIGSTOP has been consumed.
static struct tidset all, started;

// --- reading tracee memory ------------------------------------------------------------------
static int readstr(pid_t pid, unsigned long addr, char *buf, size_t n) {
  buf[0] = 0;
  if (!addr) return -1;
  size_t got = 0;
  while (got < n - 1) {
    size_t chunk = 4096 - ((addr + got) & 4095); // never cross a page in one call
    if (chunk > n - 1 - got) chunk = n - 1 - got;
    struct iovec l = {buf + got, chunk}, r = {(void *)(addr + got), chunk};
    ssize_t k = process_vm_readv(pid, &l, 1, &r, 1, 0);
    if (k <= 0) {
      // fall back to PTRACE_PEEKDATA word by word
      size_t i = 0;
      for (; i < chunk; i += sizeof(long)) {
        errno = 0;
        long w = ptrace(PTRACE_PEEKDATA, pid, (void *)(addr + got + i), 0);
        if (errno) break;
        size_t m = sizeof(long);
        if (m > chunk - i) m = chunk - i;
        memcpy(buf + got + i, &w, m);
      }
      if (i == 0) { buf[got] = 0; return got ? 0 : -1; }
      k = (ssize_t)(i > chunk ? chunk : i);
    }
    size_t z = strnlen(buf + got, (size_t)k);
    if (z < (size_t)k) return 0; // terminator found
    got += (size_t)k;
  }
  buf[n - 1] = 0;
  return 0;
}
static void fdpath(pid_t pid, int fd, char *buf, size_t n) {
  char p[64];
  snprintf(p, sizeof p, "/proc/%d/fd/%d", pid, fd);
  ssize_t k = readlink(p, buf, n - 1);
  if (k < 0) k = 0;
  buf[k] = 0;
}
// path argument relative to dirfd -> absolute (best effort)
static void atpath(pid_t pid, int dirfd, unsigned long addr, char *buf, size_t n) {
  char rel[PATH_MAX];
  if (readstr(pid, addr, rel, sizeof rel) < 0) { buf[0] = 0; return; }
  if (rel[0] == '/') { snprintf(buf, n, "%s", rel); return; }
  char base[PATH_MAX];
  if (dirfd == AT_FDCWD) {
    char p[64];
    snprintf(p, sizeof p, "/proc/%d/cwd", pid);
    ssize_t k = readlink(p, base, sizeof base - 1);
    if (k < 0) k = 0;
    base[k] = 0;
  } else {
    fdpath(pid, dirfd, base, sizeof base);
  }
  if (rel[0] == 0) snprintf(buf, n, "%s", base); // AT_EMPTY_PATH style
  else snprintf(buf, n, "%s/%s", base, rel);
}
static int under(const char *p, const char *root, size_t rootlen) {
  return p[0] && !strncmp(p, root, rootlen) && (p[rootlen] == '/' || p[rootlen] == 0 || p[rootlen] == ' ');
}

// --- PTRACE_GET_SYSCALL_INFO (own copy of the layout: header clashes between glibc/linux) -----
struct sysinfo_ {
  uint8_t op; // 0 none, 1 entry, 2 exit, 3 seccomp
  uint8_t pad[3];
  uint32_t arch;
  uint64_t ip, sp;
  union {
    struct { uint64_t nr, args[6]; } entry;
    struct { int64_t rval; uint8_t is_error; } exit;
  };
};
#ifndef PTRACE_GET_SYSCALL_INFO
#define PTRACE_GET_SYSCALL_INFO 0x420e
#endif

static pid_t child;
static volatile sig_atomic_t interrupted;
static void on_signal(int s) { (void)s; interrupted = 1; }

static void kill_tree(void) {
  kill(-child, SIGKILL); // the victim's process group (set by both sides of the fork)
  kill(child, SIGKILL);
  for (size_t i = 0; i < all.cap; i++) // anything that left the group is still a tracee
    if (all.t[i] > 0) syscall(SYS_tkill, all.t[i], SIGKILL);
  int st;
  for (;;) {
    pid_t w = waitpid(-1, &st, __WALL);
    if (w > 0) continue;
    if (errno == EINTR) continue;
    break;
  }
}


// --- seccomp filter: trace only candidate calls -------------------------------------------------
static const long candidates[] = {
  SYS_openat,
#ifdef SYS_openat2
  SYS_openat2,
#endif
#ifdef SYS_open
  SYS_open,
#endif
#ifdef SYS_creat
  SYS_creat,
#endif
  SYS_write, SYS_pwrite64, SYS_writev, SYS_pwritev,
#ifdef SYS_pwritev2
  SYS_pwritev2,
#endif
  SYS_copy_file_range, SYS_sendfile, SYS_fsync, SYS_fdatasync,
#ifdef SYS_sync_file_range
  SYS_sync_file_range,
#endif
  SYS_ftruncate, SYS_fallocate, SYS_fchown, SYS_fchmod, SYS_truncate,
#ifdef SYS_rename
  SYS_rename,
#endif
#ifdef SYS_renameat
  SYS_renameat,
#endif
  SYS_renameat2,
#ifdef SYS_unlink
  SYS_unlink,
#endif
  SYS_unlinkat,
#ifdef SYS_rmdir
  SYS_rmdir,
#endif
#ifdef SYS_mkdir
  SYS_mkdir,
#endif
  SYS_mkdirat,
#ifdef SYS_link
  SYS_link,
#endif
  SYS_linkat,
#ifdef SYS_symlink
  SYS_symlink,
#endif
  SYS_symlinkat, SYS_utimensat,
#ifdef SYS_utimes
  SYS_utimes,
#endif
#ifdef SYS_futimesat
  SYS_futimesat,
#endif
  SYS_fchownat, SYS_fchmodat,
#ifdef SYS_chown
  SYS_chown,
#endif
#ifdef SYS_lchown
  SYS_lchown,
#endif
#ifdef SYS_chmod
  SYS_chmod,
#endif
};
#if defined(__x86_64__)
#define PTSUP_AUDIT_ARCH AUDIT_ARCH_X86_64
#elif defined(__aarch64__)
#define PTSUP_AUDIT_ARCH AUDIT_ARCH_AARCH64
#endif

// called in the child between the tracing stop and exec
static int install_filter(void) {
#ifdef PTSUP_AUDIT_ARCH
  enum { NC = sizeof candidates / sizeof candidates[0] };
  struct sock_filter f[4 + 2 * NC + 1];
  int n = 0;
  f[n++] = (struct sock_filter)BPF_STMT(BPF_LD | BPF_W | BPF_ABS, offsetof(struct seccomp_data, arch));
  f[n++] = (struct sock_filter)BPF_JUMP(BPF_JMP | BPF_JEQ | BPF_K, PTSUP_AUDIT_ARCH, 1, 0);
  f[n++] = (struct sock_filter)BPF_STMT(BPF_RET | BPF_K, SECCOMP_RET_ALLOW); // foreign ABI: not traced
  f[n++] = (struct sock_filter)BPF_STMT(BPF_LD | BPF_W | BPF_ABS, offsetof(struct seccomp_data, nr));
  for (int i = 0; i < NC; i++) {
    f[n++] = (struct sock_filter)BPF_JUMP(BPF_JMP | BPF_JEQ | BPF_K, (unsigned)candidates[i], 0, 1);
    f[n++] = (struct sock_filter)BPF_STMT(BPF_RET | BPF_K, SECCOMP_RET_TRACE);
  }
  f[n++] = (struct sock_filter)BPF_STMT(BPF_RET | BPF_K, SECCOMP_RET_ALLOW);
  struct sock_fprog prog = {.len = (unsigned short)n, .filter = f};
  if (prctl(PR_SET_NO_NEW_PRIVS, 1, 0, 0, 0) < 0) return -1;
  if (prctl(PR_SET_SECCOMP, SECCOMP_MODE_FILTER, &prog) < 0) return -1;
  return 0;
#else
  errno = ENOSYS;
  return -1;
#endif
}

int main(int argc, char **argv) {
  if (argc < 6) {
  usage:
    fprintf(stderr, "usage: ptsup count <root> <log> -- cmd...  |  ptsup kill <root> <log> <N> -- cmd...\n");
    return EXIT_USAGE;
  }
  int killmode;
  if (!strcmp(argv[1], "kill")) killmode = 1;
  else if (!strcmp(argv[1], "count")) killmode = 0;
  else goto usage;
  char rootbuf[PATH_MAX];
  const char *root = argv[2];
  if (realpath(argv[2], rootbuf)) root = rootbuf; // fd paths from /proc are canonical
  size_t rootlen = strlen(root);
  while (rootlen > 1 && root[rootlen - 1] == '/') rootlen--;
  const char *root2 = argv[2]; // as given: path *arguments* of the victim need not be canonical
  size_t root2len = strlen(root2);
  while (root2len > 1 && root2[root2len - 1] == '/') root2len--;
  long N = 0;
  int ai = 4;
  if (killmode) {
    char *end;
    N = strtol(argv[4], &end, 10);
    if (*end || N < 1) goto usage;
    ai = 5;
  }
  if (ai >= argc - 1 || strcmp(argv[ai], "--")) goto usage;
  ai++;
  FILE *log = fopen(argv[3], "w");
  if (!log) { perror("ptsup: log"); return EXIT_USAGE; }
  setvbuf(log, NULL, _IOLBF, 0);

  struct sigaction sa;
  memset(&sa, 0, sizeof sa);
  sa.sa_handler = on_signal;
  sigaction(SIGTERM, &sa, NULL);
  sigaction(SIGINT, &sa, NULL);
  sigaction(SIGHUP, &sa, NULL);
  signal(SIGPIPE, SIG_IGN);

  int use_seccomp = 1;
#ifndef PTSUP_AUDIT_ARCH
  use_seccomp = 0;
#endif
  { const char *e = getenv("PTSUP_NOSECCOMP"); if (e && *e && strcmp(e, "0")) use_seccomp = 0; }
  const int resume = use_seccomp ? PTRACE_CONT : PTRACE_SYSCALL;

  child = fork();
  if (child < 0) { perror("ptsup: fork"); return EXIT_TRACE; }
  if (child == 0) {
    setpgid(0, 0);
    signal(SIGPIPE, SIG_DFL);
    if (ptrace(PTRACE_TRACEME, 0, 0, 0) < 0) { perror("ptsup: traceme"); _exit(EXIT_TRACE); }
    raise(SIGSTOP);
    if (use_seccomp && install_filter() < 0) { perror("ptsup: seccomp filter (set PTSUP_NOSECCOMP=1)"); _exit(EXIT_TRACE); }
    execvp(argv[ai], argv + ai);
    perror("ptsup: exec");
    _exit(EXIT_EXEC);
  }
  setpgid(child, child); // both sides: no window in which the group does not exist
  int st;
  if (waitpid(child, &st, 0) < 0 || !WIFSTOPPED(st)) {
    fprintf(stderr, "ptsup: victim did not stop for tracing\n");
    kill(child, SIGKILL);
    return EXIT_TRACE;
  }
  ts_add(&all, child);
  ts_add(&started, child);
  long opts = (use_seccomp ? PTRACE_O_TRACESECCOMP : 0) | PTRACE_O_TRACESYSGOOD | PTRACE_O_TRACECLONE | PTRACE_O_TRACEFORK | PTRACE_O_TRACEVFORK | PTRACE_O_TRACEEXEC | PTRACE_O_EXITKILL;
  if (ptrace(PTRACE_SETOPTIONS, child, 0, opts) < 0) {
    perror("ptsup: setoptions");
    kill(child, SIGKILL);
    return EXIT_TRACE;
  }
  ptrace(resume, child, 0, 0);

  long count = 0;
  int exitcode = 0;
  const int have_info = 1;
  for (;;) {
    if (interrupted) {
      fprintf(log, "INTERRUPTED after %ld\n", count);
      kill_tree();
      fclose(log);
      return EXIT_INTR;
    }
    pid_t tid = waitpid(-1, &st, __WALL);
    if (tid < 0) {
      if (errno == EINTR) continue;
      break; // ECHILD: everything is gone
    }
    if (WIFEXITED(st) || WIFSIGNALED(st)) {
      if (tid == child) exitcode = WIFEXITED(st) ? WEXITSTATUS(st) : 128 + WTERMSIG(st);
      continue;
    }
    if (!WIFSTOPPED(st)) continue;
    int sig = WSTOPSIG(st);
    int ev = st >> 16;
    if (sig == (SIGTRAP | 0x80) || (sig == SIGTRAP && ev == PTRACE_EVENT_SECCOMP)) {
      struct sysinfo_ si;
      memset(&si, 0, sizeof si);
      long got = have_info ? ptrace(PTRACE_GET_SYSCALL_INFO, tid, (void *)sizeof si, &si) : -1;
      if (got < 0 && have_info && (errno == EIO || errno == EINVAL)) {
        fprintf(stderr, "ptsup: kernel lacks PTRACE_GET_SYSCALL_INFO\n");
        kill_tree();
        return EXIT_TRACE;
      }
      if (got > 0 && (si.op == 1 || si.op == 3)) { // syscall entry, or seccomp stop (same layout of nr/args)
        ts_add(&all, tid);
        long nr = (long)si.entry.nr;
        uint64_t *a = si.entry.args;
        char p1[2 * PATH_MAX + 2] = "", p2[2 * PATH_MAX + 2] = "";
        const char *name = NULL;
        unsigned long flags = 0;
#define WRFLAGS(fl) (((fl) & O_ACCMODE) != O_RDONLY || ((fl) & (O_CREAT | O_TRUNC)))
#define FD1(nm) do { name = nm; fdpath(tid, (int)a[0], p1, sizeof p1); } while (0)
#define PATH0(nm) do { name = nm; atpath(tid, AT_FDCWD, a[0], p1, sizeof p1); } while (0)
#define PATHAT(nm) do { name = nm; atpath(tid, (int)a[0], a[1], p1, sizeof p1); } while (0)
        switch (nr) {
        case SYS_openat:
          flags = a[2];
          if (WRFLAGS((int)a[2])) PATHAT("openat");
          break;
#ifdef SYS_openat2
        case SYS_openat2: {
          uint64_t how[3] = {0, 0, 0};
          struct iovec l = {how, sizeof how}, r = {(void *)a[2], sizeof how};
          if (process_vm_readv(tid, &l, 1, &r, 1, 0) > 0) flags = how[0];
          if (WRFLAGS((int)flags)) PATHAT("openat2");
          break; }
#endif
#ifdef SYS_open
        case SYS_open:
          flags = a[1];
          if (WRFLAGS((int)a[1])) PATH0("open");
          break;
#endif
#ifdef SYS_creat
        case SYS_creat: flags = O_CREAT | O_WRONLY | O_TRUNC; PATH0("creat"); break;
#endif
        case SYS_write: FD1("write"); break;
        case SYS_pwrite64: FD1("pwrite64"); break;
        case SYS_writev: FD1("writev"); break;
        case SYS_pwritev: FD1("pwritev"); break;
#ifdef SYS_pwritev2
        case SYS_pwritev2: FD1("pwritev2"); break;
#endif
        case SYS_copy_file_range: name = "copy_file_range"; fdpath(tid, (int)a[2], p1, sizeof p1); fdpath(tid, (int)a[0], p2, sizeof p2); break;
        case SYS_sendfile: name = "sendfile"; fdpath(tid, (int)a[0], p1, sizeof p1); fdpath(tid, (int)a[1], p2, sizeof p2); break;
        case SYS_fsync: FD1("fsync"); break;
        case SYS_fdatasync: FD1("fdatasync"); break;
#ifdef SYS_sync_file_range
        case SYS_sync_file_range: FD1("sync_file_range"); break;
#endif
        case SYS_ftruncate: FD1("ftruncate"); break;
        case SYS_fallocate: FD1("fallocate"); break;
        case SYS_fchown: FD1("fchown"); break;
        case SYS_fchmod: FD1("fchmod"); break;
        case SYS_truncate: PATH0("truncate"); break;
#ifdef SYS_rename
        case SYS_rename: name = "rename"; atpath(tid, AT_FDCWD, a[0], p1, sizeof p1); atpath(tid, AT_FDCWD, a[1], p2, sizeof p2); break;
#endif
#ifdef SYS_renameat
        case SYS_renameat: name = "renameat"; atpath(tid, (int)a[0], a[1], p1, sizeof p1); atpath(tid, (int)a[2], a[3], p2, sizeof p2); break;
#endif
        case SYS_renameat2: name = "renameat"; flags = a[4]; atpath(tid, (int)a[0], a[1], p1, sizeof p1); atpath(tid, (int)a[2], a[3], p2, sizeof p2); break;
#ifdef SYS_unlink
        case SYS_unlink: PATH0("unlink"); break;
#endif
        case SYS_unlinkat: flags = a[2]; PATHAT("unlinkat"); break;
#ifdef SYS_rmdir
        case SYS_rmdir: PATH0("rmdir"); break;
#endif
#ifdef SYS_mkdir
        case SYS_mkdir: PATH0("mkdir"); break;
#endif
        case SYS_mkdirat: PATHAT("mkdirat"); break;
#ifdef SYS_link
        case SYS_link: name = "link"; atpath(tid, AT_FDCWD, a[0], p2, sizeof p2); atpath(tid, AT_FDCWD, a[1], p1, sizeof p1); break;
#endif
        case SYS_linkat: name = "linkat"; atpath(tid, (int)a[0], a[1], p2, sizeof p2); atpath(tid, (int)a[2], a[3], p1, sizeof p1); break;
#ifdef SYS_symlink
        case SYS_symlink: name = "symlink"; atpath(tid, AT_FDCWD, a[1], p1, sizeof p1); break;
#endif
        case SYS_symlinkat: name = "symlinkat"; atpath(tid, (int)a[1], a[2], p1, sizeof p1); break;
        case SYS_utimensat:
          name = "utimensat";
          if (a[1]) atpath(tid, (int)a[0], a[1], p1, sizeof p1);
          else fdpath(tid, (int)a[0], p1, sizeof p1); // futimens()
          break;
#ifdef SYS_utimes
        case SYS_utimes: PATH0("utimes"); break;
#endif
#ifdef SYS_futimesat
        case SYS_futimesat: PATHAT("futimesat"); break;
#endif
        case SYS_fchownat: PATHAT("fchownat"); break;
        case SYS_fchmodat: PATHAT("fchmodat"); break;
#ifdef SYS_chown
        case SYS_chown: PATH0("chown"); break;
#endif
#ifdef SYS_lchown
        case SYS_lchown: PATH0("lchown"); break;
#endif
#ifdef SYS_chmod
        case SYS_chmod: PATH0("chmod"); break;
#endif
        }
        if (name && (under(p1, root, rootlen) || under(p2, root, rootlen) || under(p1, root2, root2len) || under(p2, root2, root2len))) {
          count++;
          fprintf(log, "%ld %d %s %s %s 0x%lx\n", count, tid, name, p1[0] ? p1 : "-", p2[0] ? p2 : "-", flags);
          if (killmode && count == N) {
            fprintf(log, "KILL before %ld\n", count);
            fflush(log);
            kill_tree();
            fclose(log);
            return 137;
          }
        }
      }
      ptrace(resume, tid, 0, 0);
      continue;
    }
    if (sig == SIGTRAP && ev != 0) { // clone / fork / vfork / exec event
      if (ev == PTRACE_EVENT_CLONE || ev == PTRACE_EVENT_FORK || ev == PTRACE_EVENT_VFORK) {
        unsigned long nt = 0;
        if (ptrace(PTRACE_GETEVENTMSG, tid, 0, &nt) == 0 && nt) ts_add(&all, (pid_t)nt);
      }
      ptrace(resume, tid, 0, 0);
      continue;
    }
    if (sig == SIGSTOP && !ts_has(&started, tid)) {
      // initial stop of a new thread/child (may arrive before or after the parent's clone
      // event): consume it exactly once per tid; any later SIGSTOP is a real signal
      ts_add(&started, tid);
      ts_add(&all, tid);
      ptrace(resume, tid, 0, 0);
      continue;
    }
    if (sig == SIGTRAP) { ptrace(resume, tid, 0, 0); continue; }
    ptrace(resume, tid, 0, sig); // genuine signal: deliver it
  }
  if (exitcode >= 200) exitcode = 199;
  fprintf(log, "TOTAL %ld exit %d\n", count, exitcode);
  fclose(log);
  return exitcode;
}
