module verif/harness

go 1.25.0

toolchain go1.25.13

require (
	github.com/anishathalye/porcupine v1.3.0
	github.com/aws/aws-sdk-go-v2/service/s3 v1.97.3
	github.com/aws/smithy-go v1.24.2
	github.com/benbjohnson/litestream v0.0.0
	github.com/mattn/go-sqlite3 v1.14.19
	github.com/pierrec/lz4/v4 v4.1.23
	github.com/psanford/sqlite3vfs v0.0.0-20260519004904-f9180fa2acc9
	github.com/superfly/ltx v0.5.2
	modernc.org/sqlite v1.49.1
)

require (
	github.com/aws/aws-sdk-go-v2 v1.41.5 // indirect
	github.com/aws/aws-sdk-go-v2/aws/protocol/eventstream v1.7.8 // indirect
	github.com/aws/aws-sdk-go-v2/config v1.32.6 // indirect
	github.com/aws/aws-sdk-go-v2/credentials v1.19.6 // indirect
	github.com/aws/aws-sdk-go-v2/feature/ec2/imds v1.18.16 // indirect
	github.com/aws/aws-sdk-go-v2/feature/s3/manager v1.20.18 // indirect
	github.com/aws/aws-sdk-go-v2/internal/configsources v1.4.21 // indirect
	github.com/aws/aws-sdk-go-v2/internal/endpoints/v2 v2.7.21 // indirect
	github.com/aws/aws-sdk-go-v2/internal/ini v1.8.4 // indirect
	github.com/aws/aws-sdk-go-v2/internal/v4a v1.4.22 // indirect
	github.com/aws/aws-sdk-go-v2/service/internal/accept-encoding v1.13.7 // indirect
	github.com/aws/aws-sdk-go-v2/service/internal/checksum v1.9.13 // indirect
	github.com/aws/aws-sdk-go-v2/service/internal/presigned-url v1.13.21 // indirect
	github.com/aws/aws-sdk-go-v2/service/internal/s3shared v1.19.21 // indirect
	github.com/aws/aws-sdk-go-v2/service/signin v1.0.4 // indirect
	github.com/aws/aws-sdk-go-v2/service/sso v1.30.8 // indirect
	github.com/aws/aws-sdk-go-v2/service/ssooidc v1.35.12 // indirect
	github.com/aws/aws-sdk-go-v2/service/sts v1.41.5 // indirect
	github.com/beorn7/perks v1.0.1 // indirect
	github.com/cespare/xxhash/v2 v2.3.0 // indirect
	github.com/dustin/go-humanize v1.0.1 // indirect
	github.com/google/uuid v1.6.0 // indirect
	github.com/hablullah/go-hijri v1.0.2 // indirect
	github.com/hablullah/go-juliandays v1.0.0 // indirect
	github.com/hashicorp/golang-lru/v2 v2.0.7 // indirect
	github.com/jalaali/go-jalaali v0.0.0-20210801064154-80525e88d958 // indirect
	github.com/lmittmann/tint v1.1.3 // indirect
	github.com/markusmobius/go-dateparser v1.2.4 // indirect
	github.com/mattn/go-isatty v0.0.20 // indirect
	github.com/matttproud/golang_protobuf_extensions/v2 v2.0.0 // indirect
	github.com/prometheus/client_golang v1.17.0 // indirect
	github.com/prometheus/client_model v0.5.0 // indirect
	github.com/prometheus/common v0.45.0 // indirect
	github.com/prometheus/procfs v0.12.0 // indirect
	github.com/remyoudompheng/bigfft v0.0.0-20230129092748-24d4a6f8daec // indirect
	golang.org/x/sync v0.21.0 // indirect
	golang.org/x/sys v0.45.0 // indirect
	golang.org/x/text v0.39.0 // indirect
	google.golang.org/protobuf v1.36.11 // indirect
	modernc.org/libc v1.72.0 // indirect
	modernc.org/mathutil v1.7.1 // indirect
	modernc.org/memory v1.11.0 // indirect
)

replace github.com/benbjohnson/litestream => /repo
