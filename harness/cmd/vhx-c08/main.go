// private development binary for C08 (removed when the check is registered in cmd/vh)
package main

import (
	"io"
	"log/slog"
	"os"

	"verif/harness/internal/vf"

	_ "verif/harness/internal/c08"
)

func main() {
	slog.SetDefault(slog.New(slog.NewTextHandler(io.Discard, nil)))
	os.Exit(vf.Main(os.Args[1:]))
}
