package c08

import (
	"fmt"

	"github.com/superfly/ltx"
)

// O-PLAN: brute-force chain reachability, independent of the planner.

// F is one file on the replica: level, TXID range, creation time (abstract seconds).
type F struct{ L, Min, Max, T int }

// request: TXID 0 = none, T 0 = none (both zero = latest state).
type request struct{ TXID, T int }

func eligible(f F, rq request) bool {
	if rq.T != 0 && f.T >= rq.T {
		return false
	}
	if rq.TXID != 0 && f.Max > rq.TXID {
		return false
	}
	return true
}

// reach returns the set of TXIDs (bit t) at which some valid chain of eligible
// files ends: a chain starts with a file whose MinTXID is 1 and every further
// file has Min <= cur+1 and Max > cur.
func reach(fs []F, rq request) uint64 {
	var m uint64
	for changed := true; changed; {
		changed = false
		for _, f := range fs {
			if !eligible(f, rq) || m&(1<<uint(f.Max)) != 0 {
				continue
			}
			ok := f.Min == 1
			for cur := 1; !ok && cur < f.Max; cur++ {
				ok = m&(1<<uint(cur)) != 0 && f.Min <= cur+1
			}
			if ok {
				m |= 1 << uint(f.Max)
				changed = true
			}
		}
	}
	return m
}

type verdict struct {
	key, msg    string // refuting observation, if any
	class       int    // outcome class (index of a hot counter)
	reach       uint64
	maxReach    int
	eligible    int  // number of eligible files
	beyond      bool // an eligible file starts beyond maxReach+1
	mustSucceed bool // a valid chain to the target exists
	gapFail     bool // request must fail although a file ending at the target / beyond the chain end exists
}

func (v *verdict) bad(key, format string, a ...any) {
	v.key, v.msg, v.class = key, fmt.Sprintf(format, a...), hViolation
}

func judge(v *verdict, fs []F, rq request, plan []*ltx.FileInfo, err error) {
	v.reach = reach(fs, rq)
	for t := 63; t >= 1; t-- {
		if v.reach&(1<<uint(t)) != 0 {
			v.maxReach = t
			break
		}
	}
	endsAtTarget := false
	for _, f := range fs {
		if !eligible(f, rq) {
			continue
		}
		v.eligible++
		if f.Min > v.maxReach+1 {
			v.beyond = true
		}
		if f.Max == rq.TXID {
			endsAtTarget = true
		}
	}
	// what the statement requires of this request
	mustFail := false
	switch {
	case rq.TXID != 0:
		v.mustSucceed = v.reach&(1<<uint(rq.TXID)) != 0
		mustFail = !v.mustSucceed
		v.gapFail = mustFail && endsAtTarget
	case rq.T == 0:
		v.mustSucceed = v.maxReach > 0 && !v.beyond
		mustFail = !v.mustSucceed
		v.gapFail = v.maxReach > 0 && v.beyond
	default:
		v.mustSucceed = v.maxReach > 0
		mustFail = !v.mustSucceed
	}

	if err != nil {
		switch {
		case !mustFail && rq.TXID != 0:
			v.key, v.msg = "error-although-chain-to-txid-exists", fmt.Sprintf("a valid chain of eligible files ends at TXID %d but the planner returned an error", rq.TXID)
		case !mustFail && rq.T == 0:
			v.key, v.msg = "latest-error-without-gap", fmt.Sprintf("a valid chain reaches the newest TXID %d and no file lies beyond a gap, but the planner returned an error", v.maxReach)
		case !mustFail:
			v.key, v.msg = "timestamp-error-although-chain-exists", fmt.Sprintf("files created before T form a valid chain to TXID %d but the planner returned an error", v.maxReach)
		case rq.TXID != 0:
			v.class = hExpErrTXID
		case v.maxReach == 0:
			v.class = hExpErrNoChain
		default:
			v.class = hExpErrGap
		}
		if v.key != "" {
			v.class = hViolation
		}
		return
	}

	// a plan was returned: it must be a valid chain of eligible files of the set
	if len(plan) == 0 {
		v.bad("no-plan-no-error", "empty plan returned without an error")
		return
	}
	cur := 0
	for i, p := range plan {
		if p == nil {
			v.bad("plan-invalid-chain", "plan entry %d is nil", i)
			return
		}
		var member *F
		for k := range fs {
			if fs[k].L == p.Level && fs[k].Min == int(p.MinTXID) && fs[k].Max == int(p.MaxTXID) && at(fs[k].T).Equal(p.CreatedAt) {
				member = &fs[k]
			}
		}
		if member == nil {
			v.bad("plan-file-not-on-replica", "plan entry %d (L%d %d-%d) is not a file of the listing", i, p.Level, p.MinTXID, p.MaxTXID)
			return
		}
		if rq.T != 0 && member.T >= rq.T {
			v.bad("plan-uses-file-created-at-or-after-timestamp", "plan entry %d (L%d %d-%d) was created at %d, requested timestamp is %d", i, p.Level, p.MinTXID, p.MaxTXID, member.T, rq.T)
			return
		}
		if i == 0 {
			if member.Min != 1 {
				v.bad("plan-does-not-start-at-1", "first plan file starts at TXID %d", member.Min)
				return
			}
		} else if !(member.Min <= cur+1 && member.Max > cur) {
			v.bad("plan-not-contiguous", "plan entry %d (L%d %d-%d) does not continue a chain ending at %d", i, p.Level, p.MinTXID, p.MaxTXID, cur)
			return
		}
		cur = member.Max
	}
	switch {
	case rq.TXID != 0:
		if cur != rq.TXID {
			v.bad("plan-wrong-end", "plan ends at TXID %d, requested %d", cur, rq.TXID)
			return
		}
		v.class = hPlanTXID
	case rq.T == 0:
		if v.beyond {
			v.bad("latest-silent-gap", "plan for the latest state ends at TXID %d without an error although a file starts beyond TXID %d", cur, v.maxReach+1)
			return
		}
		if cur != v.maxReach {
			v.bad("latest-stops-early", "plan for the latest state ends at TXID %d but a valid chain reaches %d", cur, v.maxReach)
			return
		}
		v.class = hPlanLatest
	default:
		if cur != v.maxReach {
			v.bad("timestamp-plan-stops-early", "plan ends at TXID %d but files created before T form a valid chain to %d", cur, v.maxReach)
			return
		}
		v.class = hPlanTimestamp
	}
}

// selfTest asserts O-PLAN's answers on hand-worked listings (the scenarios of
// TestReplica_CalcRestorePlan plus gap/timestamp cases) and lets the planner be
// judged on them. A non-empty return value is a harness error.
func selfTest(e *evaluator) string {
	type want struct {
		rq       request
		reachEnd int  // highest reachable TXID
		target   bool // target reachable (TXID requests)
	}
	cases := []struct {
		name string
		fs   []F
		n    int
		w    []want
	}{
		{"SnapshotOnly", []F{{9, 1, 10, 1}}, 10, []want{{request{TXID: 10}, 10, true}, {request{TXID: 5}, 0, false}, {request{}, 10, false}}},
		{"SnapshotAndIncremental", []F{{9, 1, 5, 1}, {9, 1, 15, 9}, {1, 6, 7, 2}, {1, 8, 9, 3}, {1, 10, 12, 4}, {0, 7, 7, 2}, {0, 8, 8, 3}, {0, 9, 9, 3}, {0, 10, 10, 4}, {0, 11, 11, 4}},
			15, []want{{request{TXID: 10}, 10, true}, {request{TXID: 13}, 12, false}, {request{}, 15, false}, {request{T: 9}, 12, false}, {request{T: 1}, 0, false}}},
		{"GapResolvedByLowerLevel", []F{{9, 1, 5, 1}, {1, 6, 7, 2}, {1, 9, 10, 3}, {0, 8, 8, 2}, {0, 9, 9, 3}, {0, 10, 10, 3}}, 10, []want{{request{TXID: 10}, 10, true}, {request{}, 10, false}}},
		{"OverlapWithinLevel", []F{{9, 1, 5, 1}, {2, 1, 40, 2}, {2, 20, 30, 2}}, 40, []want{{request{TXID: 40}, 40, true}}},
		{"GapAtLevel0", []F{{0, 1, 1, 1}, {0, 3, 3, 2}}, 3, []want{{request{}, 1, false}, {request{TXID: 3}, 1, false}, {request{TXID: 1}, 1, true}}},
		{"NoStart", []F{{0, 2, 2, 1}, {1, 2, 3, 2}}, 3, []want{{request{}, 0, false}, {request{TXID: 3}, 0, false}}},
		{"Empty", nil, 3, []want{{request{}, 0, false}, {request{TXID: 2}, 0, false}}},
	}
	for _, c := range cases {
		for _, w := range c.w {
			var v verdict
			judge(&v, c.fs, w.rq, nil, fmt.Errorf("probe"))
			if v.maxReach != w.reachEnd {
				return fmt.Sprintf("%s %+v: oracle maxReach=%d, hand-worked %d", c.name, w.rq, v.maxReach, w.reachEnd)
			}
			if w.rq.TXID != 0 && v.mustSucceed != w.target {
				return fmt.Sprintf("%s %+v: oracle target reachable=%v, hand-worked %v", c.name, w.rq, v.mustSucceed, w.target)
			}
		}
		maxT := 0
		for _, f := range c.fs {
			if f.T > maxT {
				maxT = f.T
			}
		}
		e.cnt["selftest_sets"]++
		e.evalSet(c.fs, c.n, seq(1, maxT+1))
	}
	// the judge itself must reject bad plans
	fs := []F{{0, 1, 1, 1}, {0, 3, 3, 2}}
	mk := func(f F) *ltx.FileInfo {
		return &ltx.FileInfo{Level: f.L, MinTXID: ltx.TXID(f.Min), MaxTXID: ltx.TXID(f.Max), CreatedAt: at(f.T)}
	}
	jd := func(rq request, plan []*ltx.FileInfo, err error) verdict {
		var v verdict
		judge(&v, fs, rq, plan, err)
		return v
	}
	if v := jd(request{}, []*ltx.FileInfo{mk(fs[0])}, nil); v.key != "latest-silent-gap" {
		return "judge does not flag a silent gap: " + v.key
	}
	if v := jd(request{TXID: 3}, []*ltx.FileInfo{mk(fs[0]), mk(fs[1])}, nil); v.key != "plan-not-contiguous" {
		return "judge does not flag a non-contiguous plan: " + v.key
	}
	if v := jd(request{T: 2}, []*ltx.FileInfo{mk(fs[0]), mk(fs[1])}, nil); v.key != "plan-uses-file-created-at-or-after-timestamp" {
		return "judge does not flag a late file: " + v.key
	}
	if v := jd(request{TXID: 1}, nil, fmt.Errorf("x")); v.key != "error-although-chain-to-txid-exists" {
		return "judge does not flag a missed chain: " + v.key
	}
	return ""
}
