#!/bin/bash
# thorough.sh [check ...]: runs the thorough tier of the given checks (default: all) once, without touching /verif/evidence.
# Intended for `vp run -- tools/thorough.sh ...` (a snapshot has no bin/: setup first).
cd "$(dirname "$0")/.."
[ -x bin/vh-std ] || ./setup.sh
checks=${@:-C08 C20 C19 C11 C10 C15 C07 C13 C09 C14 C04 C18 C05 C06 C02 C01 C17 C16 C12 C03}
for c in $checks; do
  t0=$(date +%s)
  out=$(VERIF_NO_EVIDENCE=1 ./check $c thorough 2>&1); rc=$?
  echo "thorough $c exit=$rc $(( $(date +%s) - t0 ))s $(echo "$out" | grep -E "^$c thorough" | cut -c1-160)"
  echo "$out" | grep -E "^(VIOLATION|INCONCLUSIVE)|^  key=" | cut -c1-300 | head -8
done
