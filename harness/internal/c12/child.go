package c12

import (
	"bufio"
	"bytes"
	"context"
	"database/sql"
	"encoding/json"
	"fmt"
	"io"
	"log/slog"
	"math/rand"
	"net"
	"net/http"
	"net/url"
	"os"
	"path/filepath"
	"runtime"
	"runtime/pprof"
	"sort"
	"strings"
	"sync"
	"sync/atomic"
	"time"

	"github.com/benbjohnson/litestream"
	"github.com/benbjohnson/litestream/file"
	"github.com/superfly/ltx"

	"verif/harness/internal/oracle"
	"verif/harness/internal/sq"
)

// Spec is one stress run (a vf case).
type Spec struct {
	Idx        int    `json:"idx"`
	Seed       int64  `json:"seed"`
	DurMs      int    `json:"min_ms"` // the operation goroutines run at least this long ...
	Ops        int    `json:"ops"`    // ... and until this many calls have completed ...
	CapMs      int    `json:"cap_ms"` // ... but never longer than this (generous wall-clock cap)
	NDB        int    `json:"ndb"`
	Writers    int    `json:"writers"`
	G          int    `json:"g"`
	Procs      int    `json:"procs"`
	MaxDelayMs int    `json:"max_delay_ms"`
	MonMs      int    `json:"mon_ms"`
	SyncMs     int    `json:"sync_ms"`
	PageSize   int    `json:"ps"`
	MinCkpt    int    `json:"min_ckpt"`
	Trunc      int    `json:"trunc"`
	CkptMs     int    `json:"ckpt_ms"`
	MaxFrames  int    `json:"max_sync_frames"`
	L1Ms       int    `json:"l1_ms"`
	L2Ms       int    `json:"l2_ms"`
	SnapMs     int    `json:"snap_ms"`
	SnapRetMs  int    `json:"snap_ret_ms"`
	L0RetMs    int    `json:"l0_ret_ms"`
	Verify     bool   `json:"verify_compaction"`
	Reset      bool   `json:"reset_local_state"`
	FaultPct    int   `json:"fault_pct,omitempty"`    // percent of the replica client calls of the main databases that fail while the operation goroutines run (0 = delays only)
	StormRounds int   `json:"storm_rounds,omitempty"` // rounds of the 16-way same-path registration storm after the operation goroutines stopped
	Profile    string `json:"profile,omitempty"` // "" = full operation set; "maint" = sync/checkpoint/snapshot/compact only; "ckpt-interrupt" = checkpoints, CRC64, syncs, snapshots with 0.1-3 s caller deadlines (demonstration of the interrupted-checkpoint class); neither is in the default case list
}

// Event is one harness-issued call with call/return stamps of one monotonic clock.
type Event struct {
	G    int            `json:"g"`
	Op   string         `json:"op"`
	DB   string         `json:"db,omitempty"`
	T0   int64          `json:"t0"`
	T1   int64          `json:"t1"`
	Err  string         `json:"err,omitempty"`
	Reg  string         `json:"reg,omitempty"`  // registry history: reg | unreg | list
	List map[string]int `json:"list,omitempty"` // listing: short name -> multiplicity
	Note string         `json:"note,omitempty"`
}

type MainFinal struct {
	Name      string           `json:"name"`
	Path      string           `json:"path"`
	Rep       string           `json:"rep"`
	Arch      string           `json:"arch"`
	SrcCopy   string           `json:"src_copy"`
	AckSync   bool             `json:"ack_sync"`
	AckClose  bool             `json:"ack_close"`
	AckErr    string           `json:"ack_err,omitempty"`
	Hashes    map[int64]string `json:"hashes"`
	Commits   int64            `json:"commits"`
	Rollbacks int64            `json:"rollbacks"`
	Busy      int64            `json:"busy"`
	ArchMiss  int64            `json:"arch_miss"`
	ArchLinks int64            `json:"arch_links"`
	Zombies   int              `json:"zombies"` // DB objects that hold a SQLite handle after every Close returned
	Objects   int              `json:"objects"`
	Acks      []AckObs         `json:"acks,omitempty"` // acknowledgements observed while the writers were running
	Restores  []RestoreObs     `json:"restores,omitempty"` // Restore(latest) calls made while everything else was running
	LastK     int64            `json:"last_k"`         // highest ledger value whose Commit returned to the application
	AppCkpts  int64            `json:"app_ckpts"`      // application-side wal_checkpoint(TRUNCATE|RESTART|PASSIVE) calls that completed
}

// AckObs is one acknowledged replication round (SyncAndWait / Store.SyncDB(wait) /
// POST /sync wait returned success) observed while the application kept writing.
// K0 is the ledger value of the last application commit that had RETURNED before
// the call was issued; Seq is the archive's publication counter read right after the
// call returned (every file the acknowledgement can rely on was published, and
// therefore archived, before that).
// RestoreObs is one Restore(latest) that ran concurrently with replication, compaction
// and retention and reported success: the logical dump of what it produced.
type RestoreObs struct {
	T1     int64  `json:"t1"`
	K      int64  `json:"k"`
	Hash   string `json:"hash"`
	Integ  string `json:"integ"`
	Poison int    `json:"poison"`
	K0     int64  `json:"k0"`   // ledger value of the newest transaction acknowledged (mid-run ack) before the restore started
	Left   bool   `json:"left"` // a failed restore left something at its output path
}

type AckObs struct {
	Op  string `json:"op"`
	K0  int64  `json:"k0"`
	Seq int64  `json:"seq"`
	T1  int64  `json:"t1"`
}

type ProbeResult struct {
	DB    string   `json:"db"`
	When  string   `json:"when"`
	FDs   []string `json:"fds,omitempty"`  // descriptors still open on db/-wal/-shm
	Lock  string   `json:"lock,omitempty"` // "" ok, else why the checkpoint could not complete
	Note  string   `json:"note,omitempty"`
	AtMs  int64    `json:"at_ms"`
	Cause string   `json:"cause,omitempty"`
}

type ObjState struct {
	DB     string `json:"db"`
	N      int    `json:"n"`      // n-th object created for this path
	Open   bool   `json:"open"`   // IsOpen(): monitors running
	Handle bool   `json:"handle"` // closed but holds a SQLite handle (re-initialised)
}

type StuckInfo struct {
	Op        string `json:"op"`
	DB        string `json:"db"`
	G         int    `json:"g"`
	AgeMs     int64  `json:"age_ms"`
	Completed [2]int64
	Dump1     string `json:"dump1"`
	Dump2     string `json:"dump2"`
}

type Final struct {
	Status    string           `json:"status"` // ok | stuck | error:<msg>
	Mains     []MainFinal      `json:"mains"`
	Probes    []ProbeResult    `json:"probes"`
	Stuck     []StuckInfo      `json:"stuck,omitempty"`
	Completed int64            `json:"completed"`
	Proxy     map[string]int64 `json:"proxy"`
	FinalList map[string]int   `json:"final_list"`
	Reopened  []ObjState       `json:"reopened,omitempty"` // DB objects that are open / hold a SQLite handle after every Close returned
	Objects   int              `json:"objects"`
	RunMs     int64            `json:"run_ms"`    // how long the operation goroutines ran
	RunCalls  int64            `json:"run_calls"` // calls completed when they were told to stop
	WallMs    int64            `json:"wall_ms"`
	SlowOps   int              `json:"slow_ops"`
}

func init() {
	if len(os.Args) >= 3 && os.Args[1] == "stress-c12" {
		slog.SetDefault(slog.New(slog.NewTextHandler(io.Discard, nil)))
		os.Exit(childMain(os.Args[2]))
	}
}

var discard = newDiscard()

// development aid: VERIF_C12_LOG=<file> keeps litestream's own debug log of the stress child
func newDiscard() *slog.Logger {
	if p := os.Getenv("VERIF_C12_LOG"); p != "" {
		if f, err := os.OpenFile(p, os.O_CREATE|os.O_WRONLY|os.O_APPEND, 0o644); err == nil {
			return slog.New(slog.NewTextHandler(f, &slog.HandlerOptions{Level: slog.LevelDebug - 4}))
		}
	}
	return slog.New(slog.NewTextHandler(io.Discard, nil))
}

type mainDB struct {
	idx        int
	name, path string
	rep        string
	arch       *archiver
	pst        *proxyStats
	w, r       *sql.DB
	regMu      sync.Mutex // one unregister/re-register sequence at a time

	hmu    sync.Mutex
	hashes map[int64]string
	objs   []*litestream.DB

	commits, rollbacks, busy atomic.Int64

	restMu   sync.Mutex
	restores []RestoreObs
	restN    atomic.Int64
	lastK    atomic.Int64 // highest ledger value whose Commit has returned
	appCkpts atomic.Int64
	ackMu sync.Mutex
	acks  []AckObs
}

// ackCall issues one acknowledging call and, when it reports success, records what
// the acknowledgement promised (see AckObs).
func (c *child) ackCall(g *gctx, op string, m *mainDB, fn func() error) error {
	k0 := m.lastK.Load()
	err := c.call(g, op, m.name, fn)
	if err == nil {
		o := AckObs{Op: op, K0: k0, Seq: m.arch.seq.Load(), T1: c.now()}
		m.ackMu.Lock()
		if len(m.acks) < 4000 {
			m.acks = append(m.acks, o)
		}
		m.ackMu.Unlock()
	}
	return err
}

type sideDB struct {
	name, path, rep string
	mu              sync.Mutex // probe paths: one probe sequence at a time
}

type objRec struct {
	name string
	n    int
	db   *litestream.DB
}

func (c *child) track(name string, db *litestream.DB) {
	c.objMu.Lock()
	n := 1
	for _, o := range c.objs {
		if o.name == name {
			n++
		}
	}
	c.objs = append(c.objs, objRec{name, n, db})
	c.objMu.Unlock()
}

type inflight struct {
	id  int64
	op  string
	db  string
	g   int
	t0  time.Time
	gid string
}

type child struct {
	dir    string
	spec   Spec
	start  time.Time
	st     *litestream.Store
	srv    *litestream.Server
	sock   string
	hc     *http.Client
	levels litestream.CompactionLevels
	mains  []*mainDB
	regs   []*sideDB
	prbs   []*sideDB
	names  map[string]string // path -> short name

	stop        atomic.Bool
	stopWriters atomic.Bool
	faultsOn    atomic.Bool // injected storage faults are delivered only while the operation goroutines run

	evMu sync.Mutex
	evF  *os.File
	evW  *bufio.Writer
	evN  int

	flMu   sync.Mutex
	fl     map[int64]*inflight
	nextID int64

	completed atomic.Int64
	slowOps   atomic.Int64
	seedN     atomic.Int64

	prMu   sync.Mutex
	probes []ProbeResult

	objMu sync.Mutex
	objs  []objRec

	stuckMu sync.Mutex
	stuck   []StuckInfo
	isStuck atomic.Bool
}

func (c *child) now() int64 { return int64(time.Since(c.start)) }

func (c *child) emit(e Event) {
	b, _ := json.Marshal(e)
	c.evMu.Lock()
	c.evW.Write(b)
	c.evW.WriteByte('\n')
	c.evN++
	if c.evN%64 == 0 {
		c.evW.Flush()
	}
	c.evMu.Unlock()
}

func (c *child) flush() {
	c.evMu.Lock()
	c.evW.Flush()
	c.evMu.Unlock()
}

type gctx struct {
	id  int
	gid string
	rng *rand.Rand
}

func goid() string {
	var buf [64]byte
	n := runtime.Stack(buf[:], false)
	f := strings.Fields(string(buf[:n]))
	if len(f) >= 2 {
		return f[1]
	}
	return "?"
}

func (c *child) newG(id int) *gctx {
	return &gctx{id: id, gid: goid(), rng: rand.New(rand.NewSource(c.spec.Seed*1000003 + int64(id)*7919 + c.seedN.Add(1)))}
}

func short(err error) string {
	if err == nil {
		return ""
	}
	s := err.Error()
	if len(s) > 140 {
		s = s[:140]
	}
	return s
}

// call runs one litestream call, stamping it and tracking it as in flight.
func (c *child) call(g *gctx, op, db string, fn func() error) error {
	e := Event{G: g.id, Op: op, DB: db}
	return c.do(g, &e, fn)
}

func (c *child) do(g *gctx, e *Event, fn func() error) error {
	c.flMu.Lock()
	c.nextID++
	id := c.nextID
	c.fl[id] = &inflight{id: id, op: e.Op, db: e.DB, g: g.id, t0: time.Now(), gid: g.gid}
	c.flMu.Unlock()
	e.T0 = c.now()
	err := fn()
	e.T1 = c.now()
	c.flMu.Lock()
	delete(c.fl, id)
	c.flMu.Unlock()
	c.completed.Add(1)
	if e.Err == "" {
		e.Err = short(err)
	}
	c.emit(*e)
	return err
}

func ctxT(d time.Duration) (context.Context, context.CancelFunc) {
	return context.WithTimeout(context.Background(), d)
}

func cancelled() context.Context {
	ctx, cancel := context.WithCancel(context.Background())
	cancel()
	return ctx
}

// ---------------------------------------------------------------------------

func childMain(dir string) int {
	c := &child{dir: dir, fl: map[int64]*inflight{}, names: map[string]string{}}
	fin := &Final{Status: "error:setup"}
	defer func() {
		// never reached on a litestream panic in another goroutine: the
		// process dies and the parent reports it
	}()
	b, err := os.ReadFile(filepath.Join(dir, "spec.json"))
	if err == nil {
		err = json.Unmarshal(b, &c.spec)
	}
	if err != nil {
		fmt.Fprintln(os.Stderr, "spec:", err)
		return 4
	}
	if c.spec.Procs > 0 {
		runtime.GOMAXPROCS(c.spec.Procs)
	}
	c.start = time.Now()
	c.evF, err = os.Create(filepath.Join(dir, "events.jsonl"))
	if err != nil {
		fmt.Fprintln(os.Stderr, err)
		return 4
	}
	c.evW = bufio.NewWriterSize(c.evF, 1<<16)
	writeFinal := func() {
		fin.Completed = c.completed.Load()
		fin.WallMs = time.Since(c.start).Milliseconds()
		fin.SlowOps = int(c.slowOps.Load())
		c.prMu.Lock()
		fin.Probes = append([]ProbeResult{}, c.probes...)
		c.prMu.Unlock()
		c.stuckMu.Lock()
		fin.Stuck = c.stuck
		c.stuckMu.Unlock()
		c.flush()
		jb, _ := json.Marshal(fin)
		_ = os.WriteFile(filepath.Join(dir, "final.json.tmp"), jb, 0o644)
		_ = os.Rename(filepath.Join(dir, "final.json.tmp"), filepath.Join(dir, "final.json"))
	}
	if err := c.setup(); err != nil {
		fin.Status = "error:setup: " + err.Error()
		writeFinal()
		return 4
	}

	// watchdog: progress file + progress-confirmed stuck detection
	wdStop := make(chan struct{})
	var wdWG sync.WaitGroup
	stuckCh := make(chan struct{})
	wdWG.Add(1)
	go func() { defer wdWG.Done(); c.watchdog(wdStop, stuckCh) }()

	runDone := make(chan struct{})
	go func() {
		c.run(fin)
		close(runDone)
	}()
	select {
	case <-runDone:
		fin.Status = "ok"
	case <-stuckCh:
		fin.Status = "stuck"
	}
	close(wdStop)
	wdWG.Wait()
	writeFinal()
	if fin.Status == "stuck" {
		return 3
	}
	return 0
}

func appDSN(path string, busyMs, cache int, immediate bool) string {
	s := fmt.Sprintf("file:%s?_pragma=busy_timeout(%d)&_pragma=wal_autocheckpoint(0)", path, busyMs)
	if cache != 0 {
		s += fmt.Sprintf("&_pragma=cache_size(%d)", cache)
	}
	if immediate {
		s += "&_txlock=immediate"
	}
	return s
}

func (c *child) setup() error {
	s := c.spec
	rng := rand.New(rand.NewSource(s.Seed))
	for i := 0; i < s.NDB; i++ {
		m := &mainDB{idx: i, name: fmt.Sprintf("db%d", i), hashes: map[int64]string{}, pst: &proxyStats{}}
		m.path = filepath.Join(c.dir, m.name)
		m.rep = filepath.Join(c.dir, "rep-"+m.name)
		m.arch = &archiver{dir: filepath.Join(c.dir, "arch-"+m.name)}
		d, err := sq.Create(m.path, s.PageSize, i%3)
		if err != nil {
			return fmt.Errorf("create %s: %w", m.name, err)
		}
		if _, err := d.Exec(`CREATE TABLE t0(id INTEGER PRIMARY KEY, v BLOB); CREATE TABLE t1(id INTEGER PRIMARY KEY, v BLOB); CREATE TABLE t2(id INTEGER PRIMARY KEY, v BLOB);`); err != nil {
			return err
		}
		dump, err := sq.DumpConn(context.Background(), d, false)
		if err != nil {
			return err
		}
		m.hashes[0] = dump.Hash
		if err := d.Close(); err != nil {
			return err
		}
		if m.w, err = sql.Open("sqlite", appDSN(m.path, 3000, []int{2, 8, 0}[rng.Intn(3)], true)); err != nil {
			return err
		}
		m.w.SetMaxOpenConns(3)
		if m.r, err = sql.Open("sqlite", appDSN(m.path, 3000, 0, false)); err != nil {
			return err
		}
		m.r.SetMaxOpenConns(2)
		if err := m.w.Ping(); err != nil { // keeps one application connection open for the whole run
			return err
		}
		c.mains = append(c.mains, m)
		c.names[m.path] = m.name
	}
	side := func(name string) (*sideDB, error) {
		p := &sideDB{name: name, path: filepath.Join(c.dir, name), rep: filepath.Join(c.dir, "rep-"+name)}
		d, err := sq.Create(p.path, 4096, 0)
		if err != nil {
			return nil, err
		}
		if _, err := d.Exec(`CREATE TABLE t0(id INTEGER PRIMARY KEY, v BLOB); INSERT INTO t0(v) VALUES(randomblob(3000)); INSERT INTO t0(v) VALUES(randomblob(9000));`); err != nil {
			return nil, err
		}
		if err := d.Close(); err != nil {
			return nil, err
		}
		c.names[p.path] = name
		return p, nil
	}
	for i := 0; i < 2; i++ {
		p, err := side(fmt.Sprintf("reg%d", i))
		if err != nil {
			return err
		}
		c.regs = append(c.regs, p)
	}
	for i := 0; i < 2; i++ {
		p, err := side(fmt.Sprintf("prb%d", i))
		if err != nil {
			return err
		}
		c.prbs = append(c.prbs, p)
	}

	ms := func(n int) time.Duration { return time.Duration(n) * time.Millisecond }
	c.levels = litestream.CompactionLevels{{Level: 0}, {Level: 1, Interval: ms(s.L1Ms)}, {Level: 2, Interval: ms(s.L2Ms)}}
	var dbs []*litestream.DB
	for _, m := range c.mains {
		dbs = append(dbs, c.mkMain(m))
	}
	st := litestream.NewStore(dbs, c.levels)
	st.Logger = discard
	for _, d := range dbs {
		d.SetLogger(discard)
	}
	st.SnapshotInterval = ms(s.SnapMs)
	st.SnapshotRetention = ms(s.SnapRetMs)
	st.SetL0Retention(ms(s.L0RetMs))
	st.L0RetentionCheckInterval = 5 * time.Millisecond
	st.HeartbeatCheckInterval = 0
	st.CompactionMonitorEnabled = true
	st.SetShutdownSyncTimeout(0)
	if s.Verify {
		st.SetVerifyCompaction(true)
	}
	if err := st.Open(context.Background()); err != nil {
		return fmt.Errorf("store open: %w", err)
	}
	c.st = st
	c.sock = filepath.Join(c.dir, "ctl.sock")
	c.srv = litestream.NewServer(st)
	c.srv.SocketPath = c.sock
	if err := c.srv.Start(); err != nil {
		return fmt.Errorf("server start: %w", err)
	}
	c.hc = &http.Client{Transport: &http.Transport{
		DialContext: func(ctx context.Context, _, _ string) (net.Conn, error) {
			var dl net.Dialer
			return dl.DialContext(ctx, "unix", c.sock)
		},
		MaxIdleConnsPerHost: 16,
	}, Timeout: 180 * time.Second} // longer than the watchdog's suspicion + confirmation window
	return nil
}

// mkMain builds a fresh litestream.DB object for a main database ("process start" for that path).
func (c *child) mkMain(m *mainDB) *litestream.DB {
	s := c.spec
	db := litestream.NewDB(m.path)
	db.MonitorInterval = time.Duration(s.MonMs) * time.Millisecond
	db.MinCheckpointPageN = s.MinCkpt
	db.TruncatePageN = s.Trunc
	db.CheckpointInterval = time.Duration(s.CkptMs) * time.Millisecond
	switch {
	case s.MaxFrames > 0:
		db.MaxSyncWALBytes = int64(s.MaxFrames) * int64(s.PageSize+24)
	case s.MaxFrames == 0:
		db.MaxSyncWALBytes = 0
	}
	db.BusyTimeout = 200 * time.Millisecond
	db.ShutdownSyncTimeout = 0
	db.Logger = discard.With("h", m.name)
	fc := file.NewReplicaClient(m.rep)
	px := newProxy(fc, m.arch, time.Duration(s.MaxDelayMs)*time.Millisecond, s.Seed+int64(m.idx)*31+c.seedN.Add(1), m.pst)
	px.faultPct, px.faultsOn = s.FaultPct, &c.faultsOn
	db.Replica = litestream.NewReplicaWithClient(db, px)
	db.Replica.SyncInterval = time.Duration(s.SyncMs) * time.Millisecond
	fc.Replica = db.Replica
	m.hmu.Lock()
	m.objs = append(m.objs, db)
	m.hmu.Unlock()
	c.track(m.name, db)
	return db
}

var sideStats = &proxyStats{}

func (c *child) mkSide(p *sideDB) *litestream.DB {
	s := c.spec
	db := litestream.NewDB(p.path)
	db.MonitorInterval = time.Duration(s.MonMs) * time.Millisecond
	db.MinCheckpointPageN = 2 // so that the final sync inside Close checkpoints (and re-takes the read lock under Close's context)
	db.BusyTimeout = 200 * time.Millisecond
	db.ShutdownSyncTimeout = 0
	db.Logger = discard
	fc := file.NewReplicaClient(p.rep)
	px := newProxy(fc, nil, time.Duration(s.MaxDelayMs/2)*time.Millisecond, s.Seed+c.seedN.Add(1), sideStats)
	db.Replica = litestream.NewReplicaWithClient(db, px)
	db.Replica.SyncInterval = time.Duration(s.SyncMs) * time.Millisecond
	fc.Replica = db.Replica
	c.track(p.name, db)
	return db
}

// ---------------------------------------------------------------------------
// watchdog

func (c *child) dumpStacks(name string) string {
	p := filepath.Join(c.dir, name)
	f, err := os.Create(p)
	if err != nil {
		return ""
	}
	defer f.Close()
	_ = pprof.Lookup("goroutine").WriteTo(f, 2)
	return p
}

const (
	suspectAfter = 90 * time.Second
	confirmAfter = 10 * time.Second
)

func (c *child) oldest() (*inflight, int) {
	c.flMu.Lock()
	defer c.flMu.Unlock()
	var o *inflight
	for _, f := range c.fl {
		if o == nil || f.t0.Before(o.t0) {
			o = f
		}
	}
	if o == nil {
		return nil, 0
	}
	cp := *o
	return &cp, len(c.fl)
}

func (c *child) stillInflight(id int64) bool {
	c.flMu.Lock()
	defer c.flMu.Unlock()
	_, ok := c.fl[id]
	return ok
}

func (c *child) watchdog(stop <-chan struct{}, stuckCh chan<- struct{}) {
	pf, _ := os.Create(filepath.Join(c.dir, "progress.jsonl"))
	defer pf.Close()
	tick := time.NewTicker(250 * time.Millisecond)
	defer tick.Stop()
	n := 0
	for {
		select {
		case <-stop:
			return
		case <-tick.C:
		}
		n++
		o, nfl := c.oldest()
		if n%4 == 0 {
			age := int64(0)
			op := ""
			if o != nil {
				age = time.Since(o.t0).Milliseconds()
				op = o.op
			}
			fmt.Fprintf(pf, `{"t_ms":%d,"completed":%d,"inflight":%d,"oldest_ms":%d,"oldest_op":%q}`+"\n", time.Since(c.start).Milliseconds(), c.completed.Load(), nfl, age, op)
		}
		if o == nil || time.Since(o.t0) < suspectAfter {
			continue
		}
		// suspicion: confirm with two goroutine dumps 10 s apart
		c.slowOps.Add(1)
		c1 := c.completed.Load()
		d1 := c.dumpStacks(fmt.Sprintf("dump-%d-a.txt", o.id))
		select {
		case <-stop:
			return
		case <-time.After(confirmAfter):
		}
		if !c.stillInflight(o.id) {
			continue // it returned: slow, not stuck
		}
		c2 := c.completed.Load()
		d2 := c.dumpStacks(fmt.Sprintf("dump-%d-b.txt", o.id))
		c.stuckMu.Lock()
		c.stuck = append(c.stuck, StuckInfo{Op: o.op, DB: o.db, G: o.g, AgeMs: time.Since(o.t0).Milliseconds(), Completed: [2]int64{c1, c2}, Dump1: d1, Dump2: d2})
		c.stuckMu.Unlock()
		c.isStuck.Store(true)
		close(stuckCh)
		return
	}
}

// ---------------------------------------------------------------------------
// application side

func blob(rng *rand.Rand, n int) []byte {
	b := make([]byte, n)
	rng.Read(b)
	return b
}

// writer commits multi-statement transactions touching >=2 tables, bumps the
// ledger in each, records H_k computed inside the transaction, and rolls back
// others after writing poison rows large enough to spill into the WAL.
func (c *child) writer(w int, m *mainDB) {
	rng := rand.New(rand.NewSource(c.spec.Seed*131 + int64(w)))
	ctx := context.Background()
	nextNeg := int64(-1 - w*1000000000)
	for !c.stopWriters.Load() {
		tx, err := m.w.BeginTx(ctx, nil)
		if err != nil {
			m.busy.Add(1)
			time.Sleep(time.Millisecond)
			continue
		}
		if rng.Intn(7) == 0 { // rollback with poison
			var ex error
			n := 1 + rng.Intn(4)
			for i := 0; i < n && ex == nil; i++ {
				nextNeg--
				_, ex = tx.ExecContext(ctx, `INSERT INTO t0(id,v) VALUES(?,?)`, nextNeg, blob(rng, 2000+rng.Intn(9000)))
			}
			if ex == nil {
				_, ex = tx.ExecContext(ctx, `UPDATE ledger SET k=k+1000000`)
			}
			if rng.Intn(2) == 0 {
				time.Sleep(time.Duration(rng.Intn(3000)) * time.Microsecond)
			}
			_ = tx.Rollback()
			m.rollbacks.Add(1)
			continue
		}
		var ex error
		n := 1 + rng.Intn(4)
		for i := 0; i < n && ex == nil; i++ {
			a, b := rng.Intn(3), rng.Intn(3)
			if a == b {
				b = (a + 1) % 3
			}
			switch rng.Intn(6) {
			case 0, 1, 2:
				sz := []int{20, 300, 1500, 1500, 7000, 30000}[rng.Intn(6)]
				_, ex = tx.ExecContext(ctx, fmt.Sprintf(`INSERT INTO t%d(v) VALUES(?)`, a), blob(rng, sz))
				if ex == nil {
					_, ex = tx.ExecContext(ctx, fmt.Sprintf(`INSERT INTO t%d(v) VALUES(?)`, b), blob(rng, sz/2+1))
				}
			case 3:
				_, ex = tx.ExecContext(ctx, fmt.Sprintf(`DELETE FROM t%d WHERE id IN (SELECT id FROM t%d WHERE id>0 ORDER BY id LIMIT %d)`, a, a, 2+rng.Intn(6)))
				if ex == nil {
					_, ex = tx.ExecContext(ctx, fmt.Sprintf(`DELETE FROM t%d WHERE id IN (SELECT id FROM t%d WHERE id>0 ORDER BY id LIMIT %d)`, b, b, 2+rng.Intn(6)))
				}
			case 4:
				_, ex = tx.ExecContext(ctx, fmt.Sprintf(`UPDATE t%d SET v=? WHERE id%%5=?`, a), blob(rng, 40), rng.Intn(5))
				if ex == nil {
					_, ex = tx.ExecContext(ctx, fmt.Sprintf(`UPDATE t%d SET v=? WHERE id%%7=?`, b), blob(rng, 25), rng.Intn(7))
				}
			case 5: // keep the database small
				for t := 0; t < 3 && ex == nil; t++ {
					_, ex = tx.ExecContext(ctx, fmt.Sprintf(`DELETE FROM t%d WHERE id>0 AND id < (SELECT max(id) FROM t%d) - 60`, t, t))
				}
			}
		}
		if ex == nil {
			_, ex = tx.ExecContext(ctx, `UPDATE ledger SET k=k+1`)
		}
		var k int64
		var hash string
		if ex == nil {
			var d *sq.Dump
			d, ex = sq.DumpConn(ctx, tx, false)
			if ex == nil {
				k, hash = d.K, d.Hash
				if d.Poison != 0 {
					ex = fmt.Errorf("harness: poison visible inside a committing transaction")
				}
			}
		}
		if ex != nil {
			_ = tx.Rollback()
			m.busy.Add(1)
			continue
		}
		if rng.Intn(4) == 0 { // hold the write lock for a while
			time.Sleep(time.Duration(rng.Intn(3000)) * time.Microsecond)
		}
		if err := tx.Commit(); err != nil {
			_ = tx.Rollback()
			m.busy.Add(1)
			continue
		}
		m.hmu.Lock()
		m.hashes[k] = hash
		m.hmu.Unlock()
		m.commits.Add(1)
		for {
			cur := m.lastK.Load()
			if k <= cur || m.lastK.CompareAndSwap(cur, k) {
				break
			}
		}
		if rng.Intn(40) == 0 {
			// the application checkpoints its own database now and then (what an application
			// with wal_autocheckpoint or a maintenance job does while litestream runs)
			mode := []string{"TRUNCATE", "RESTART", "PASSIVE", "TRUNCATE"}[rng.Intn(4)]
			var a, b, c2 int
			if err := m.w.QueryRowContext(ctx, `PRAGMA wal_checkpoint(`+mode+`)`).Scan(&a, &b, &c2); err == nil {
				m.appCkpts.Add(1)
			}
		}
		if rng.Intn(3) == 0 {
			time.Sleep(time.Duration(rng.Intn(4000)) * time.Microsecond)
		}
	}
}

// reader pins a read-mark for a while (makes checkpoints come back busy).
func (c *child) reader(m *mainDB) {
	rng := rand.New(rand.NewSource(c.spec.Seed*977 + int64(m.idx)))
	for !c.stopWriters.Load() {
		time.Sleep(time.Duration(20+rng.Intn(120)) * time.Millisecond)
		tx, err := m.r.Begin()
		if err != nil {
			continue
		}
		var n int
		_ = tx.QueryRow(`SELECT count(*) FROM t0`).Scan(&n)
		time.Sleep(time.Duration(2+rng.Intn(40)) * time.Millisecond)
		_ = tx.Rollback()
	}
}

// ---------------------------------------------------------------------------
// probes

func fdProbe(path string) []string {
	ents, err := os.ReadDir("/proc/self/fd")
	if err != nil {
		return []string{"harness: " + err.Error()}
	}
	var out []string
	for _, e := range ents {
		t, err := os.Readlink("/proc/self/fd/" + e.Name())
		if err != nil {
			continue
		}
		t = strings.TrimSuffix(t, " (deleted)")
		if t == path || t == path+"-wal" || t == path+"-shm" {
			out = append(out, e.Name()+"->"+filepath.Base(t))
		}
	}
	return out
}

// lockProbe: a fresh connection writes one row and must be able to complete
// PRAGMA wal_checkpoint(TRUNCATE). A leaked litestream read transaction pins
// a read-mark and the checkpoint comes back busy.
func lockProbe(path string) string {
	last := ""
	for try := 0; try < 3; try++ {
		if try > 0 {
			time.Sleep(150 * time.Millisecond)
		}
		d, err := sql.Open("sqlite", "file:"+path+"?_pragma=busy_timeout(400)")
		if err != nil {
			return "harness: " + err.Error()
		}
		d.SetMaxOpenConns(1)
		_, err = d.Exec(`CREATE TABLE IF NOT EXISTS _c12_probe(x); INSERT INTO _c12_probe VALUES(1);`)
		if err != nil {
			last = "probe write: " + err.Error()
			d.Close()
			continue
		}
		var busy, lg, ck int
		err = d.QueryRow(`PRAGMA wal_checkpoint(TRUNCATE)`).Scan(&busy, &lg, &ck)
		d.Close()
		if err != nil {
			last = "wal_checkpoint(TRUNCATE): " + err.Error()
			continue
		}
		if busy != 0 {
			last = fmt.Sprintf("wal_checkpoint(TRUNCATE) busy=%d log=%d checkpointed=%d", busy, lg, ck)
			continue
		}
		return ""
	}
	return last
}

func (c *child) probe(name, path, when string) ProbeResult {
	pr := ProbeResult{DB: name, When: when, AtMs: time.Since(c.start).Milliseconds()}
	// descriptors of a connection whose context was cancelled are closed by
	// database/sql asynchronously: poll briefly, only a persisting descriptor counts
	for i := 0; i < 40; i++ {
		if pr.FDs = fdProbe(path); len(pr.FDs) == 0 {
			break
		}
		time.Sleep(100 * time.Millisecond)
	}
	pr.Lock = lockProbe(path)
	c.prMu.Lock()
	c.probes = append(c.probes, pr)
	c.prMu.Unlock()
	return pr
}

// ---------------------------------------------------------------------------
// run

func (c *child) listing(g *gctx, op string) {
	e := Event{G: g.id, Op: op, Reg: "list"}
	c.do(g, &e, func() error {
		m := map[string]int{}
		for _, d := range c.st.DBs() {
			n := c.names[d.Path()]
			if n == "" {
				n = d.Path()
			}
			m[n]++
		}
		e.List = m
		return nil
	})
}

func (c *child) run(fin *Final) {
	s := c.spec
	c.faultsOn.Store(s.FaultPct > 0)
	var wwg sync.WaitGroup
	for w := 0; w < s.Writers; w++ {
		m := c.mains[w%len(c.mains)]
		wwg.Add(1)
		go func(w int) { defer wwg.Done(); c.writer(w, m) }(w)
	}
	for _, m := range c.mains {
		m := m
		wwg.Add(1)
		go func() { defer wwg.Done(); c.reader(m) }()
	}
	var owg sync.WaitGroup
	for i := 0; i < s.G; i++ {
		owg.Add(1)
		go func(i int) {
			defer owg.Done()
			g := c.newG(i)
			ops := c.opTable()
			total := 0
			for _, o := range ops {
				total += o.w
			}
			for !c.stop.Load() {
				r := g.rng.Intn(total)
				for _, o := range ops {
					if r < o.w {
						o.fn(g)
						break
					}
					r -= o.w
				}
				if d := g.rng.Intn(4); d > 0 {
					time.Sleep(time.Duration(g.rng.Intn(d*1000)) * time.Microsecond)
				}
			}
		}(i)
	}
	runStart := time.Now()
	for {
		time.Sleep(50 * time.Millisecond)
		el := time.Since(runStart)
		if (el >= time.Duration(s.DurMs)*time.Millisecond && c.completed.Load() >= int64(s.Ops)) || el >= time.Duration(s.CapMs)*time.Millisecond {
			break
		}
	}
	fin.RunMs = time.Since(runStart).Milliseconds()
	fin.RunCalls = c.completed.Load()
	c.stop.Store(true)
	c.faultsOn.Store(false) // failures stop here: the final acknowledgement runs against a healthy store
	owg.Wait() // a call that never returns is caught by the watchdog
	// registration storm: rounds of 16 concurrent registrations of one path under
	// registry-lock contention, each followed by the one-instance listing check, one
	// UnregisterDB and the lock/descriptor probes (the application writers still run)
	if len(c.prbs) > 0 && s.Profile == "" {
		sg := c.newG(900)
		rounds := s.StormRounds
		for i := 0; i < rounds && !c.isStuck.Load(); i++ {
			c.burstN(sg, c.prbs[i%len(c.prbs)], true, 16, 4)
		}
	}
	c.stopWriters.Store(true)
	wwg.Wait()
	c.flush()

	// final acknowledgement with writers stopped
	g := c.newG(1000)
	finals := make([]MainFinal, len(c.mains))
	for i, m := range c.mains {
		mf := &finals[i]
		mf.Name, mf.Path, mf.Rep, mf.Arch = m.name, m.path, m.rep, m.arch.dir
		d := c.st.FindDB(m.path)
		if d == nil {
			nd := c.mkMain(m)
			e := Event{G: g.id, Op: "RegisterDB-main", DB: m.name, Reg: "reg", Note: "final"}
			c.do(g, &e, func() error { return c.st.RegisterDB(nd) })
			d = c.st.FindDB(m.path)
		}
		if d != nil && !d.IsOpen() {
			ctx, cancel := ctxT(20 * time.Second)
			c.call(g, "EnableDB", m.name, func() error { return c.st.EnableDB(ctx, m.path) })
			cancel()
		}
		var err error = fmt.Errorf("database not registered")
		for try := 0; try < 3 && d != nil; try++ {
			ctx, cancel := ctxT(30 * time.Second)
			e := Event{G: g.id, Op: "SyncAndWait", DB: m.name, Note: "final"}
			err = c.do(g, &e, func() error { return d.SyncAndWait(ctx) })
			cancel()
			if err == nil {
				break
			}
			time.Sleep(50 * time.Millisecond)
		}
		mf.AckSync = err == nil
		if err != nil {
			mf.AckErr = "SyncAndWait: " + short(err)
		}
	}
	c.listing(g, "Store.DBs")
	c.call(g, "Server.Close", "", func() error { return c.srv.Close() })
	c.hc.CloseIdleConnections()
	var cerr error
	{
		// The caller's context stays alive until after the probes: database/sql
		// rolls a transaction back by itself when the context it was begun
		// under is cancelled, which would hide a read lock that Close forgot.
		ctx, cancel := ctxT(10 * time.Minute)
		defer cancel()
		e := Event{G: g.id, Op: "Store.Close", Note: "final"}
		cerr = c.do(g, &e, func() error { return c.st.Close(ctx) })
	}
	fl := map[string]int{}
	for _, d := range c.st.DBs() {
		fl[c.names[d.Path()]]++
	}
	fin.FinalList = fl
	// every DB object ever created must be closed now: registered ones by
	// Store.Close, the others by UnregisterDB / RegisterDB (losers)
	c.objMu.Lock()
	fin.Objects = len(c.objs)
	for _, o := range c.objs {
		st := ObjState{DB: o.name, N: o.n, Open: o.db.IsOpen()}
		if !st.Open {
			// closed: no monitor goroutine, every call has returned => plain read is ordered
			st.Handle = o.db.SQLDB() != nil
		}
		if st.Open || st.Handle {
			fin.Reopened = append(fin.Reopened, st)
		}
	}
	c.objMu.Unlock()
	for i, m := range c.mains {
		mf := &finals[i]
		mf.AckClose = cerr == nil
		if cerr != nil && mf.AckErr == "" {
			mf.AckErr = "Store.Close: " + short(cerr)
		}
		// O-SRC material: copy db + wal now (writers stopped, litestream closed)
		cp := filepath.Join(c.dir, "final-"+m.name)
		_ = os.MkdirAll(cp, 0o755)
		mf.SrcCopy = filepath.Join(cp, "db")
		if err := sq.CopyFile(m.path, mf.SrcCopy); err != nil {
			mf.AckErr += " harness: copy source: " + err.Error()
			mf.SrcCopy = ""
		} else if err := sq.CopyFile(m.path+"-wal", mf.SrcCopy+"-wal"); err != nil && !os.IsNotExist(err) {
			mf.AckErr += " harness: copy wal: " + err.Error()
			mf.SrcCopy = ""
		}
		m.hmu.Lock()
		mf.Hashes = m.hashes
		mf.Objects = len(m.objs)
		for _, o := range m.objs {
			if o.SQLDB() != nil {
				mf.Zombies++
			}
		}
		m.hmu.Unlock()
		mf.Commits, mf.Rollbacks, mf.Busy = m.commits.Load(), m.rollbacks.Load(), m.busy.Load()
		mf.ArchMiss, mf.ArchLinks = m.arch.missed.Load(), m.arch.linked.Load()
		m.ackMu.Lock()
		mf.Acks = m.acks
		m.ackMu.Unlock()
		mf.LastK, mf.AppCkpts = m.lastK.Load(), m.appCkpts.Load()
		m.restMu.Lock()
		mf.Restores = m.restores
		m.restMu.Unlock()
	}
	fin.Mains = finals
	// application connections go away, then nothing of ours or litestream's may be left
	for _, m := range c.mains {
		_ = m.w.Close()
		_ = m.r.Close()
	}
	for _, m := range c.mains {
		pr := c.probe(m.name, m.path, "after-Store.Close")
		_ = pr
	}
	for _, p := range append(append([]*sideDB{}, c.regs...), c.prbs...) {
		c.probe(p.name, p.path, "after-Store.Close")
	}
	px := map[string]int64{}
	for _, m := range c.mains {
		px["list"] += m.pst.list.Load()
		px["open"] += m.pst.open.Load()
		px["write"] += m.pst.write.Load()
		px["delays"] += m.pst.delays.Load()
		px["faults_injected"] += m.pst.faults.Load()
	}
	px["side_write"] = sideStats.write.Load()
	fin.Proxy = px
}

// ---------------------------------------------------------------------------
// HTTP helpers

func (c *child) post(path string, body any) (int, []byte, error) {
	b, _ := json.Marshal(body)
	resp, err := c.hc.Post("http://unix"+path, "application/json", bytes.NewReader(b))
	if err != nil {
		return 0, nil, err
	}
	defer resp.Body.Close()
	rb, _ := io.ReadAll(resp.Body)
	return resp.StatusCode, rb, nil
}

func (c *child) get(path string) (int, []byte, error) {
	resp, err := c.hc.Get("http://unix" + path)
	if err != nil {
		return 0, nil, err
	}
	defer resp.Body.Close()
	rb, _ := io.ReadAll(resp.Body)
	return resp.StatusCode, rb, nil
}

func httpErr(code int, body []byte, err error) error {
	if err != nil {
		return err
	}
	if code != 200 {
		return fmt.Errorf("http %d: %s", code, bytes.TrimSpace(body))
	}
	return nil
}

// ---------------------------------------------------------------------------
// operation table

type opDef struct {
	name string
	w    int
	fn   func(g *gctx)
}

func (c *child) pickMain(g *gctx) *mainDB { return c.mains[g.rng.Intn(len(c.mains))] }

// open returns the registered, open DB object for m (what Store itself requires
// before it calls into a DB), or nil.
func (c *child) open(m *mainDB) *litestream.DB {
	d := c.st.FindDB(m.path)
	if d == nil || !d.IsOpen() {
		return nil
	}
	return d
}

func (c *child) opTable() []opDef {
	onOpen := func(name string, f func(g *gctx, m *mainDB, d *litestream.DB)) func(g *gctx) {
		return func(g *gctx) {
			m := c.pickMain(g)
			d := c.open(m)
			if d == nil {
				// a disabled database: most of the time somebody enables it again
				if c.st.FindDB(m.path) != nil && g.rng.Intn(2) == 0 {
					c.opEnable(g, m)
				} else {
					time.Sleep(time.Millisecond)
				}
				return
			}
			f(g, m, d)
		}
	}
	any := func(f func(g *gctx, m *mainDB, d *litestream.DB)) func(g *gctx) {
		return func(g *gctx) {
			m := c.pickMain(g)
			d := c.st.FindDB(m.path)
			if d == nil {
				return
			}
			f(g, m, d)
		}
	}
	t5 := 20 * time.Second // the daemon's own /sync default is 30 s; deadline-induced failures are not the point here
	if c.spec.Profile == "ckpt-interrupt" {
		// demonstration profile: callers' deadlines expire inside checkpoints
		t5 = time.Duration(100+rand.Intn(2900)) * time.Millisecond
	}
	ops := []opDef{
		{"DB.Sync", 6, onOpen("DB.Sync", func(g *gctx, m *mainDB, d *litestream.DB) {
			ctx, cancel := ctxT(t5)
			defer cancel()
			c.call(g, "DB.Sync", m.name, func() error { return d.Sync(ctx) })
		})},
		{"Replica.Sync", 4, onOpen("Replica.Sync", func(g *gctx, m *mainDB, d *litestream.DB) {
			ctx, cancel := ctxT(t5)
			defer cancel()
			c.call(g, "Replica.Sync", m.name, func() error { return d.Replica.Sync(ctx) })
		})},
		{"SyncAndWait", 7, onOpen("SyncAndWait", func(g *gctx, m *mainDB, d *litestream.DB) {
			ctx, cancel := ctxT(t5)
			defer cancel()
			c.ackCall(g, "SyncAndWait", m, func() error { return d.SyncAndWait(ctx) })
		})},
		{"Checkpoint", 6, onOpen("Checkpoint", func(g *gctx, m *mainDB, d *litestream.DB) {
			mode := []string{litestream.CheckpointModePassive, litestream.CheckpointModeTruncate, litestream.CheckpointModeRestart}[g.rng.Intn(3)]
			ctx, cancel := ctxT(t5)
			defer cancel()
			c.call(g, "Checkpoint-"+mode, m.name, func() error { return d.Checkpoint(ctx, mode) })
		})},
		{"Snapshot", 6, onOpen("Snapshot", func(g *gctx, m *mainDB, d *litestream.DB) {
			ctx, cancel := ctxT(t5)
			defer cancel()
			c.call(g, "Snapshot", m.name, func() error { _, err := d.Snapshot(ctx); return err })
		})},
		{"SnapshotReader", 3, onOpen("SnapshotReader", func(g *gctx, m *mainDB, d *litestream.DB) {
			ctx, cancel := ctxT(t5)
			defer cancel()
			c.call(g, "SnapshotReader", m.name, func() error {
				_, rc, err := d.SnapshotReader(ctx)
				if err != nil {
					return err
				}
				defer rc.Close()
				buf := make([]byte, 8192)
				limit := 1 + g.rng.Intn(40) // slow consumer; sometimes abandons the stream early
				for i := 0; i < limit; i++ {
					if _, err := rc.Read(buf); err != nil {
						if err == io.EOF {
							return nil
						}
						return err
					}
					time.Sleep(time.Duration(g.rng.Intn(3000)) * time.Microsecond)
				}
				if g.rng.Intn(2) == 0 {
					_, err = io.Copy(io.Discard, rc)
				}
				return err
			})
		})},
		{"Restore-latest", 2, func(g *gctx) {
			// what `litestream restore` does from another process while the daemon keeps
			// replicating, compacting and enforcing retention: an error is acceptable (files
			// it planned with may be gone), success must be a committed state of the source
			m := c.pickMain(g)
			n := m.restN.Add(1)
			out := filepath.Join(c.dir, fmt.Sprintf("restore-%s-%d.db", m.name, n))
			rep := litestream.NewReplicaWithClient(nil, file.NewReplicaClient(m.rep))
			opt := litestream.NewRestoreOptions()
			opt.OutputPath = out
			ctx, cancel := ctxT(t5)
			defer cancel()
			err := c.call(g, "Restore-latest", m.name, func() error { return rep.Restore(ctx, opt) })
			defer func() {
				for _, sfx := range []string{"", ".tmp", "-wal", "-shm", "-txid"} {
					_ = os.Remove(out + sfx)
				}
			}()
			if err != nil {
				if _, serr := os.Stat(out); serr == nil {
					m.restMu.Lock()
					m.restores = append(m.restores, RestoreObs{T1: c.now(), Left: true, Integ: short(err)})
					m.restMu.Unlock()
				}
				return
			}
			d, derr := sq.DumpDB(out, true)
			o := RestoreObs{T1: c.now()}
			if derr != nil {
				o.Integ = "unreadable: " + short(derr)
				o.K = -1
			} else {
				o.K, o.Hash, o.Integ, o.Poison = d.K, d.Hash, d.Integ, d.Poison
			}
			m.restMu.Lock()
			if len(m.restores) < 400 {
				m.restores = append(m.restores, o)
			}
			m.restMu.Unlock()
		}},
		{"CRC64", 2, onOpen("CRC64", func(g *gctx, m *mainDB, d *litestream.DB) {
			ctx, cancel := ctxT(t5)
			defer cancel()
			c.call(g, "CRC64", m.name, func() error { _, _, err := d.CRC64(ctx); return err })
		})},
		{"Compact", 6, onOpen("Compact", func(g *gctx, m *mainDB, d *litestream.DB) {
			lvl := 1 + g.rng.Intn(2)
			ctx, cancel := ctxT(t5)
			defer cancel()
			c.call(g, fmt.Sprintf("Compact-%d", lvl), m.name, func() error { _, err := d.Compact(ctx, lvl); return err })
		})},
		{"Store.CompactDB", 4, onOpen("Store.CompactDB", func(g *gctx, m *mainDB, d *litestream.DB) {
			var lvl *litestream.CompactionLevel
			switch g.rng.Intn(3) {
			case 0:
				lvl = c.levels[1]
			case 1:
				lvl = c.levels[2]
			default:
				lvl = c.st.SnapshotLevel()
			}
			ctx, cancel := ctxT(t5)
			defer cancel()
			c.call(g, fmt.Sprintf("Store.CompactDB-%d", lvl.Level), m.name, func() error { _, err := c.st.CompactDB(ctx, d, lvl); return err })
		})},
		{"retention", 3, onOpen("retention", func(g *gctx, m *mainDB, d *litestream.DB) {
			ctx, cancel := ctxT(t5)
			defer cancel()
			switch g.rng.Intn(3) {
			case 0: // what Store.EnforceSnapshotRetention does, call by call
				var min uint64
				err := c.do(g, &Event{G: g.id, Op: "EnforceSnapshotRetention", DB: m.name}, func() error {
					t, err := d.EnforceSnapshotRetention(ctx, time.Now().Add(-time.Duration(c.spec.SnapRetMs)*time.Millisecond))
					min = uint64(t)
					return err
				})
				if err == nil {
					lvl := 1 + g.rng.Intn(2)
					c.call(g, "EnforceRetentionByTXID", m.name, func() error { return d.EnforceRetentionByTXID(ctx, lvl, ltx.TXID(min)) })
				}
			case 1:
				c.call(g, "EnforceL0RetentionByTime", m.name, func() error { return d.EnforceL0RetentionByTime(ctx) })
			default:
				c.call(g, "Store.EnforceSnapshotRetention", m.name, func() error { return c.st.EnforceSnapshotRetention(ctx, d) })
			}
		})},
		{"status", 8, any(func(g *gctx, m *mainDB, d *litestream.DB) {
			ctx, cancel := ctxT(t5)
			defer cancel()
			switch g.rng.Intn(4) {
			case 0:
				c.call(g, "SyncStatus", m.name, func() error { _, err := d.SyncStatus(ctx); return err })
			case 1:
				c.call(g, "SyncDiagnostic", m.name, func() error { _ = d.SyncDiagnostic(); return nil })
			case 2:
				c.call(g, "Pos", m.name, func() error { _, err := d.Pos(); return err })
			default:
				lvl := []int{0, 1, 2, 9}[g.rng.Intn(4)]
				c.call(g, "MaxLTXFileInfo", m.name, func() error { _, err := d.MaxLTXFileInfo(ctx, lvl); return err })
			}
		})},
		{"Store.SyncDB", 4, func(g *gctx) {
			m := c.pickMain(g)
			if c.st.FindDB(m.path) == nil && g.rng.Intn(8) != 0 {
				time.Sleep(2 * time.Millisecond) // unregistered at the moment: mostly wait for it to come back
				return
			}
			wait := g.rng.Intn(2) == 0
			ctx, cancel := ctxT(t5)
			defer cancel()
			if wait {
				c.ackCall(g, "Store.SyncDB-wait=true", m, func() error { _, err := c.st.SyncDB(ctx, m.path, true); return err })
				return
			}
			c.call(g, fmt.Sprintf("Store.SyncDB-wait=%v", wait), m.name, func() error { _, err := c.st.SyncDB(ctx, m.path, wait); return err })
		}},
		{"EnableDB", 4, func(g *gctx) {
			if m := c.pickMain(g); c.st.FindDB(m.path) != nil {
				c.opEnable(g, m)
			}
		}},
		{"DisableDB", 2, func(g *gctx) {
			m := c.pickMain(g)
			if c.st.FindDB(m.path) == nil && g.rng.Intn(8) != 0 {
				time.Sleep(2 * time.Millisecond)
				return
			}
			if g.rng.Intn(3) == 0 {
				c.call(g, "DisableDB-cancelled-ctx", m.name, func() error { return c.st.DisableDB(cancelled(), m.path) })
				return
			}
			ctx, cancel := ctxT(t5)
			defer cancel()
			c.call(g, "DisableDB", m.name, func() error { return c.st.DisableDB(ctx, m.path) })
		}},
		{"DB.Close-cancelled", 1, onOpen("DB.Close-cancelled", func(g *gctx, m *mainDB, d *litestream.DB) {
			c.call(g, "DB.Close-cancelled-ctx", m.name, func() error { return d.Close(cancelled()) })
		})},
		{"reregister-main", 1, func(g *gctx) {
			m := c.pickMain(g)
			if !m.regMu.TryLock() {
				return
			}
			defer m.regMu.Unlock()
			ctx, cancel := ctxT(15 * time.Second)
			if g.rng.Intn(3) == 0 {
				cancel()
			}
			defer cancel()
			c.do(g, &Event{G: g.id, Op: "UnregisterDB-main", DB: m.name, Reg: "unreg"}, func() error { return c.st.UnregisterDB(ctx, m.path) })
			time.Sleep(time.Duration(g.rng.Intn(20)) * time.Millisecond)
			nd := c.mkMain(m)
			c.do(g, &Event{G: g.id, Op: "RegisterDB-main", DB: m.name, Reg: "reg"}, func() error { return c.st.RegisterDB(nd) })
		}},
		{"Store.DBs", 4, func(g *gctx) { c.listing(g, "Store.DBs") }},
		{"RegisterDB-reg", 4, func(g *gctx) {
			p := c.regs[g.rng.Intn(len(c.regs))]
			nd := c.mkSide(p)
			c.do(g, &Event{G: g.id, Op: "RegisterDB", DB: p.name, Reg: "reg"}, func() error { return c.st.RegisterDB(nd) })
		}},
		{"UnregisterDB-reg", 3, func(g *gctx) {
			p := c.regs[g.rng.Intn(len(c.regs))]
			ctx, cancel := ctxT(t5)
			op := "UnregisterDB"
			if g.rng.Intn(3) == 0 {
				cancel()
				op = "UnregisterDB-cancelled-ctx"
			}
			defer cancel()
			c.do(g, &Event{G: g.id, Op: op, DB: p.name, Reg: "unreg"}, func() error { return c.st.UnregisterDB(ctx, p.path) })
		}},
		{"register-burst", 1, func(g *gctx) { c.burst(g, c.regs[g.rng.Intn(len(c.regs))], false) }},
		{"probe-seq", 2, func(g *gctx) {
			p := c.prbs[g.rng.Intn(len(c.prbs))]
			if !p.mu.TryLock() {
				return
			}
			defer p.mu.Unlock()
			c.burst(g, p, true)
		}},
		{"http", 14, func(g *gctx) { c.opHTTP(g) }},
	}
	if c.spec.Reset {
		ops = append(ops, opDef{"ResetLocalState", 1, onOpen("ResetLocalState", func(g *gctx, m *mainDB, d *litestream.DB) {
			ctx, cancel := ctxT(t5)
			defer cancel()
			e := Event{G: g.id, Op: "ResetLocalState", DB: m.name}
			c.do(g, &e, func() error {
				err := d.ResetLocalState(ctx)
				// what the replica held at the moment the reset returned
				_, l0, hi := snapshotAheadOfL0(m.rep)
				e.Note = fmt.Sprintf("l0max=%d himax=%d", l0, hi)
				return err
			})
		})})
	}
	if c.spec.Profile == "ckpt-interrupt" {
		keep := map[string]bool{"DB.Sync": true, "SyncAndWait": true, "Checkpoint": true, "CRC64": true, "Snapshot": true, "status": true, "Store.CompactDB": true}
		var f []opDef
		for _, o := range ops {
			if keep[o.name] {
				f = append(f, o)
			}
		}
		ops = f
	}
	if c.spec.Profile == "maint" {
		keep := map[string]bool{"DB.Sync": true, "SyncAndWait": true, "Checkpoint": true, "Snapshot": true, "Compact": true, "Store.CompactDB": true, "status": true, "Replica.Sync": true}
		var f []opDef
		for _, o := range ops {
			if keep[o.name] {
				f = append(f, o)
			}
		}
		ops = f
	}
	return ops
}

func (c *child) opEnable(g *gctx, m *mainDB) {
	ctx, cancel := ctxT(8 * time.Second)
	defer cancel()
	c.call(g, "EnableDB", m.name, func() error { return c.st.EnableDB(ctx, m.path) })
}

// burst: N concurrent RegisterDB(samePath); for probe paths followed by the
// one-instance check, one UnregisterDB and the lock/fd probes.
func (c *child) burst(g *gctx, p *sideDB, probe bool) { c.burstN(g, p, probe, 2+g.rng.Intn(4), 0) }

// burstN: width concurrent registrations of one path, with `contend` goroutines
// issuing registry status queries (FindDB / DBs) meanwhile, so that the registry
// lock is handed over between waiters while the registrations leave Open().
func (c *child) burstN(g *gctx, p *sideDB, probe bool, n, contend int) {
	var wg sync.WaitGroup
	startCh := make(chan struct{})
	var done atomic.Bool
	var cwg sync.WaitGroup
	for i := 0; i < contend; i++ {
		cwg.Add(1)
		go func(i int) {
			defer cwg.Done()
			<-startCh
			for !done.Load() {
				if i%2 == 0 {
					_ = c.st.FindDB(p.path)
				} else {
					_ = c.st.DBs()
				}
			}
		}(i)
	}
	defer func() { done.Store(true); cwg.Wait() }()
	for i := 0; i < n; i++ {
		wg.Add(1)
		nd := c.mkSide(p)
		go func(i int) {
			defer wg.Done()
			sg := &gctx{id: g.id*100 + i + 10000, gid: goid()}
			<-startCh
			c.do(sg, &Event{G: sg.id, Op: "RegisterDB-same-path", DB: p.name, Reg: "reg"}, func() error { return c.st.RegisterDB(nd) })
		}(i)
	}
	close(startCh)
	wg.Wait()
	done.Store(true)
	if !probe {
		return
	}
	// let a duplicate instance, if any, initialise (its monitor takes the read lock)
	time.Sleep(time.Duration(15+g.rng.Intn(30)) * time.Millisecond)
	c.listing(g, "Store.DBs")
	// fresh application commits, so that Close has something to sync and checkpoint
	if d, err := sql.Open("sqlite", appDSN(p.path, 2000, 0, false)); err == nil {
		d.SetMaxOpenConns(1)
		for i := 0; i < 3; i++ {
			_, _ = d.Exec(`INSERT INTO t0(v) VALUES(randomblob(5000))`)
		}
		_, _ = d.Exec(`DELETE FROM t0 WHERE id < (SELECT max(id) FROM t0) - 20`)
		_ = d.Close()
	}
	ctx, cancel := ctxT(10 * time.Minute) // alive until after the probe (see Store.Close below)
	op := "UnregisterDB"
	if g.rng.Intn(2) == 0 {
		cancel()
		op = "UnregisterDB-cancelled-ctx"
	}
	defer cancel()
	c.do(g, &Event{G: g.id, Op: op, DB: p.name, Reg: "unreg"}, func() error { return c.st.UnregisterDB(ctx, p.path) })
	c.do(g, &Event{G: g.id, Op: "probe", DB: p.name}, func() error {
		pr := c.probe(p.name, p.path, "after-"+op)
		if len(pr.FDs) > 0 || pr.Lock != "" {
			return fmt.Errorf("fds=%v lock=%s", pr.FDs, pr.Lock)
		}
		return nil
	})
}

func (c *child) opHTTP(g *gctx) {
	// targets: main databases and the registry-churn paths
	type tgt struct{ name, path, rep string }
	var ts []tgt
	for _, m := range c.mains {
		ts = append(ts, tgt{m.name, m.path, m.rep})
	}
	nm := len(ts)
	for _, p := range c.regs {
		ts = append(ts, tgt{p.name, p.path, p.rep})
	}
	t := ts[g.rng.Intn(len(ts))]
	reg := ts[nm+g.rng.Intn(len(ts)-nm)]
	if c.st.FindDB(t.path) == nil && g.rng.Intn(4) != 0 {
		t = ts[g.rng.Intn(nm)] // mostly address something that is registered
	}
	q := url.QueryEscape(t.path)
	switch g.rng.Intn(11) {
	case 0, 1:
		wait := g.rng.Intn(2) == 0
		if wait {
			for _, m := range c.mains {
				if m.path == t.path {
					c.ackCall(g, "POST /sync wait=true", m, func() error {
						return httpErr(c.post("/sync", litestream.SyncRequest{Path: t.path, Wait: true, Timeout: 20}))
					})
					return
				}
			}
		}
		c.call(g, fmt.Sprintf("POST /sync wait=%v", wait), t.name, func() error {
			return httpErr(c.post("/sync", litestream.SyncRequest{Path: t.path, Wait: wait, Timeout: 20}))
		})
	case 2:
		c.call(g, "POST /start", t.name, func() error { return httpErr(c.post("/start", litestream.StartRequest{Path: t.path, Timeout: 20})) })
	case 3:
		if g.rng.Intn(2) == 0 { // keep stop rarer than start
			c.call(g, "POST /stop", t.name, func() error { return httpErr(c.post("/stop", litestream.StopRequest{Path: t.path, Timeout: 20})) })
		}
	case 4:
		c.do(g, &Event{G: g.id, Op: "POST /register", DB: reg.name, Reg: "reg"}, func() error {
			return httpErr(c.post("/register", litestream.RegisterDatabaseRequest{Path: reg.path, ReplicaURL: "file://" + reg.rep}))
		})
	case 5:
		c.do(g, &Event{G: g.id, Op: "POST /unregister", DB: reg.name, Reg: "unreg"}, func() error {
			return httpErr(c.post("/unregister", litestream.UnregisterDatabaseRequest{Path: reg.path, Timeout: 20}))
		})
	case 6:
		c.call(g, "GET /txid", t.name, func() error { return httpErr(c.get("/txid?path=" + q)) })
	case 7:
		e := Event{G: g.id, Op: "GET /list", Reg: "list"}
		c.do(g, &e, func() error {
			code, body, err := c.get("/list")
			if err := httpErr(code, body, err); err != nil {
				e.Reg = "" // no observation
				return err
			}
			var lr litestream.ListResponse
			if err := json.Unmarshal(body, &lr); err != nil {
				e.Reg = ""
				return err
			}
			m := map[string]int{}
			for _, d := range lr.Databases {
				n := c.names[d.Path]
				if n == "" {
					n = d.Path
				}
				m[n]++
			}
			e.List = m
			return nil
		})
	case 8:
		c.call(g, "GET /info", "", func() error { return httpErr(c.get("/info")) })
	case 9:
		c.call(g, "GET /debug/sync-status", "", func() error { return httpErr(c.get("/debug/sync-status")) })
	default:
		c.call(g, "GET /debug/sync-status?path", t.name, func() error { return httpErr(c.get("/debug/sync-status?path=" + q)) })
	}
}

func sortedKeys(m map[string]int) []string {
	var a []string
	for k := range m {
		a = append(a, k)
	}
	sort.Strings(a)
	return a
}

// snapshotAheadOfL0 reports whether the replica directory holds a file at
// level >= 1 whose MaxTXID exceeds the highest level-0 TXID on the replica.
func snapshotAheadOfL0(rep string) (ahead bool, l0max, himax int) {
	for _, f := range oracle.ListAll(rep) {
		if f.Level == 0 {
			if f.Max > l0max {
				l0max = f.Max
			}
		} else if f.Max > himax {
			himax = f.Max
		}
	}
	return himax > l0max, l0max, himax
}
