package c12

import (
	"context"
	"errors"
	"fmt"
	"io"
	"math/rand"
	"os"
	"path/filepath"
	"sync"
	"sync/atomic"
	"time"

	"github.com/benbjohnson/litestream"
	"github.com/benbjohnson/litestream/file"
	"github.com/superfly/ltx"
)

// archiver keeps a hard link to every file a proxy published on one replica
// directory (all levels), so that retention cannot take the reference (O-L0)
// or a once-published derived file away. One archiver per source database; it
// outlives the litestream.DB objects (a re-registered database gets a new DB
// object and a new proxy, but the same archiver).
type archiver struct {
	dir    string // <dir>/<level>/<min>-<max>.<seq>.ltx
	seq    atomic.Int64
	missed atomic.Int64 // file vanished before it could be linked
	linked atomic.Int64
}

func (a *archiver) keep(src string, level int, minTXID, maxTXID ltx.TXID) {
	n := a.seq.Add(1)
	d := filepath.Join(a.dir, fmt.Sprint(level))
	_ = os.MkdirAll(d, 0o755)
	dst := filepath.Join(d, fmt.Sprintf("%d-%d.%d.ltx", uint64(minTXID), uint64(maxTXID), n))
	if err := os.Link(src, dst); err != nil {
		a.missed.Add(1)
		return
	}
	a.linked.Add(1)
}

// proxy is the E-FAULT ReplicaClient proxy in its delay-only configuration:
// it sleeps 0..maxDelay at randomly chosen calls of LTXFiles / OpenLTXFile /
// WriteLTXFile (before the call, and once in the middle of an upload stream),
// i.e. at the points where litestream really suspends while holding
// Replica.syncSem, the snapshot's checkpoint read-lock or a compaction. It
// never injects an error. It is an ordinary implementation of the public
// interface.
type proxy struct {
	litestream.ReplicaClient // Type, Init, DeleteLTXFiles, DeleteAll, SetLogger
	fc                       *file.ReplicaClient
	arch                     *archiver
	maxDelay                 time.Duration

	mu  sync.Mutex
	rng *rand.Rand

	calls  *proxyStats
	closed atomic.Bool

	// fault injection (only in cases that ask for it, only while *faultsOn is true):
	// faultPct percent of the LTXFiles / OpenLTXFile / WriteLTXFile calls fail; an upload
	// fails either before anything is read or after part of the stream was consumed,
	// nothing is ever written by a failed upload
	faultPct int
	faultsOn *atomic.Bool
}

var errInjected = errors.New("injected storage fault")

func (p *proxy) fault() bool {
	if p.faultPct <= 0 || p.faultsOn == nil || !p.faultsOn.Load() {
		return false
	}
	p.mu.Lock()
	hit := p.rng.Intn(100) < p.faultPct
	p.mu.Unlock()
	if hit {
		p.calls.faults.Add(1)
	}
	return hit
}

type proxyStats struct {
	list, open, write, delays, faults atomic.Int64
}

func newProxy(fc *file.ReplicaClient, arch *archiver, maxDelay time.Duration, seed int64, st *proxyStats) *proxy {
	return &proxy{ReplicaClient: fc, fc: fc, arch: arch, maxDelay: maxDelay, rng: rand.New(rand.NewSource(seed)), calls: st}
}

// pick returns a delay (possibly zero) for one call site.
func (p *proxy) pick(pct int) time.Duration {
	if p.maxDelay <= 0 {
		return 0
	}
	p.mu.Lock()
	defer p.mu.Unlock()
	if p.rng.Intn(100) >= pct {
		return 0
	}
	return time.Duration(p.rng.Int63n(int64(p.maxDelay) + 1))
}

func (p *proxy) sleep(ctx context.Context, d time.Duration) {
	if d <= 0 {
		return
	}
	p.calls.delays.Add(1)
	t := time.NewTimer(d)
	defer t.Stop()
	select {
	case <-t.C:
	case <-ctx.Done():
	}
}

func (p *proxy) LTXFiles(ctx context.Context, level int, seek ltx.TXID, useMetadata bool) (ltx.FileIterator, error) {
	p.calls.list.Add(1)
	p.sleep(ctx, p.pick(25))
	if p.fault() {
		return nil, fmt.Errorf("list level %d: %w", level, errInjected)
	}
	return p.ReplicaClient.LTXFiles(ctx, level, seek, useMetadata)
}

func (p *proxy) OpenLTXFile(ctx context.Context, level int, minTXID, maxTXID ltx.TXID, offset, size int64) (io.ReadCloser, error) {
	p.calls.open.Add(1)
	p.sleep(ctx, p.pick(30))
	if p.fault() {
		return nil, fmt.Errorf("open ltx file: %w", errInjected)
	}
	return p.ReplicaClient.OpenLTXFile(ctx, level, minTXID, maxTXID, offset, size)
}

// slowReader sleeps once after the first chunk of the upload stream.
type slowReader struct {
	r    io.Reader
	p    *proxy
	ctx  context.Context
	d    time.Duration
	done bool
}

func (s *slowReader) Read(b []byte) (int, error) {
	n, err := s.r.Read(b)
	if !s.done && n > 0 {
		s.done = true
		s.p.sleep(s.ctx, s.d)
	}
	return n, err
}

func (p *proxy) WriteLTXFile(ctx context.Context, level int, minTXID, maxTXID ltx.TXID, r io.Reader) (*ltx.FileInfo, error) {
	p.calls.write.Add(1)
	p.sleep(ctx, p.pick(40))
	if d := p.pick(40); d > 0 {
		r = &slowReader{r: r, p: p, ctx: ctx, d: d}
	}
	if p.fault() {
		p.mu.Lock()
		part := p.rng.Intn(2) == 0
		p.mu.Unlock()
		if part { // the upload breaks after part of the stream was consumed
			_, _ = io.CopyN(io.Discard, r, 600)
		}
		return nil, fmt.Errorf("write ltx file: %w", errInjected)
	}
	info, err := p.ReplicaClient.WriteLTXFile(ctx, level, minTXID, maxTXID, r)
	if err == nil && p.arch != nil {
		// no delay between publication and the link: level-0 retention needs
		// the file to be older than L0Retention (>= tens of ms)
		p.arch.keep(p.fc.LTXFilePath(level, minTXID, maxTXID), level, minTXID, maxTXID)
	}
	return info, err
}
