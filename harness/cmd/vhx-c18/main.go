// vhx-c18 is the private development binary of the C18 builder (removed when done).
package main

import (
	"io"
	"log/slog"
	"os"

	"verif/harness/internal/vf"

	_ "verif/harness/internal/c18"
)

func main() {
	slog.SetDefault(slog.New(slog.NewTextHandler(io.Discard, nil)))
	os.Exit(vf.Main(os.Args[1:]))
}
