// Package hist is E-HIST: a single controller goroutine drives application
// connections and a litestream DB with all background monitors off, so the
// interleaving is exactly the generated operation list.
package hist

import (
	"context"
	"database/sql"
	"fmt"
	"io"
	"log/slog"
	"math/rand"
	"os"
	"path/filepath"
	"strings"
	"sync"
	"time"

	"github.com/benbjohnson/litestream"
	"github.com/benbjohnson/litestream/file"
	"github.com/superfly/ltx"

	"verif/harness/internal/oracle"
	"verif/harness/internal/sq"
	"verif/harness/internal/vf"
)

// Config is one point of the configuration lattice.
type Config struct {
	PageSize           int   `json:"ps"`
	AutoVacuum         int   `json:"av"`
	MinCheckpointPageN int   `json:"min_ckpt"`
	TruncatePageN      int   `json:"trunc"`
	CheckpointInterval int64 `json:"ckpt_interval_ns"`
	MaxSyncWALFrames   int   `json:"max_sync_frames"` // 0 = unlimited, -1 = 64MiB default, n = n frames
	MaxSyncLTXFiles    int   `json:"max_sync_files"`
	// SecureDelete: the application connections run with PRAGMA secure_delete=ON, so
	// freed pages are zero-filled and a database can end in all-zero pages. Not drawn by
	// RandomConfig (that would shift every seeded history); set by the case generators.
	SecureDelete bool `json:"secure_delete,omitempty"`
}

var PageSizes = []int{512, 1024, 2048, 4096, 8192, 16384, 32768, 65536}

// RandomConfig draws a configuration from the lattice of DESIGN §2.
func RandomConfig(rng *rand.Rand) Config {
	return Config{
		PageSize:           PageSizes[rng.Intn(len(PageSizes))],
		AutoVacuum:         rng.Intn(3),
		MinCheckpointPageN: []int{1, 2, 5, 50, 1000}[rng.Intn(5)],
		TruncatePageN:      []int{0, 3, 20, 500}[rng.Intn(4)],
		CheckpointInterval: []int64{0, 1, int64(24 * time.Hour)}[rng.Intn(3)],
		MaxSyncWALFrames:   []int{0, 1, 3, -1}[rng.Intn(4)],
		MaxSyncLTXFiles:    []int{0, 1, 3}[rng.Intn(3)],
	}
}

func (c Config) String() string {
	sd := ""
	if c.SecureDelete {
		sd = " secure_delete"
	}
	return fmt.Sprintf("ps=%d av=%d min=%d trunc=%d ci=%d maxf=%d maxl=%d%s", c.PageSize, c.AutoVacuum, c.MinCheckpointPageN, c.TruncatePageN, c.CheckpointInterval, c.MaxSyncWALFrames, c.MaxSyncLTXFiles, sd)
}

// LogCapture is a slog handler that counts messages (coverage evidence only).
type LogCapture struct {
	mu     sync.Mutex
	Counts map[string]int
	Keep   []string
	// Hook, when set, is called for every record on the goroutine that logs it,
	// outside the handler's lock. Directed histories use litestream's own log
	// calls as suspension points (e.g. "encode header" lies between building the
	// WAL page map and copying the page data).
	Hook func(msg string)
}

func (l *LogCapture) Enabled(context.Context, slog.Level) bool { return true }
func (l *LogCapture) Handle(_ context.Context, r slog.Record) error {
	if h := l.Hook; h != nil {
		h(r.Message)
	}
	l.mu.Lock()
	defer l.mu.Unlock()
	if l.Counts == nil {
		l.Counts = map[string]int{}
	}
	msg := r.Message
	r.Attrs(func(a slog.Attr) bool {
		if a.Key == "reason" {
			msg += " reason=" + a.Value.String()
		}
		return true
	})
	l.Counts[msg]++
	if p := os.Getenv("VERIF_LS_LOG"); p != "" { // development aid: litestream's own log, in order
		if f, err := os.OpenFile(p, os.O_CREATE|os.O_WRONLY|os.O_APPEND, 0o644); err == nil {
			line := r.Level.String() + " " + r.Message
			r.Attrs(func(a slog.Attr) bool { line += " " + a.Key + "=" + a.Value.String(); return true })
			fmt.Fprintln(f, line)
			f.Close()
		}
	}
	return nil
}
func (l *LogCapture) WithAttrs([]slog.Attr) slog.Handler { return l }
func (l *LogCapture) WithGroup(string) slog.Handler      { return l }
func (l *LogCapture) Snapshot() map[string]int {
	l.mu.Lock()
	defer l.mu.Unlock()
	m := map[string]int{}
	for k, v := range l.Counts {
		m[k] = v
	}
	return m
}

// Env is one history's world.
type Env struct {
	Ctx     context.Context
	Dir     string
	DBPath  string
	RepPath string
	Cfg     Config
	Rng     *rand.Rand
	Res     *vf.Result

	W   *sql.DB // application writer (1 connection)
	X   *sql.DB // application aux connections (tiny cache: spills)
	OTx *sql.Tx // open write transaction left across other ops
	RTx *sql.Tx // long reader

	K      int64            // ledger value of the last committed application transaction
	Hashes map[int64]string // H_k

	LS     *litestream.DB
	Client litestream.ReplicaClient // what LS.Replica uses (possibly a proxy)
	FileC  *file.ReplicaClient      // the underlying file client
	Wrap   func(litestream.ReplicaClient) litestream.ReplicaClient
	Logs   *LogCapture
	Tune   func(db *litestream.DB)

	Arch *oracle.Archive

	metaMounted bool
	metaFull    bool

	ForceTable int // 0 = PRNG-chosen table; 1..3 = application writes go to t0..t2

	nextOut int
	extraN  int
	nextID  [3]int64
}

func discardLogger() *slog.Logger { return slog.New(slog.NewTextHandler(io.Discard, nil)) }

// NewEnv creates the source database and application connections (litestream
// is not started yet; call StartLS).
func NewEnv(dir string, cfg Config, rng *rand.Rand, res *vf.Result) (*Env, error) {
	e := &Env{Ctx: context.Background(), Dir: dir, DBPath: filepath.Join(dir, "db"), RepPath: filepath.Join(dir, "rep"), Cfg: cfg, Rng: rng, Res: res,
		Hashes: map[int64]string{}, Arch: oracle.NewArchive(), Logs: &LogCapture{}}
	sq.ExtraPragmas = ""
	if cfg.SecureDelete {
		sq.ExtraPragmas = "&_pragma=secure_delete(1)"
	}
	w, err := sq.Create(e.DBPath, cfg.PageSize, cfg.AutoVacuum)
	if err != nil {
		return nil, fmt.Errorf("create db: %w", err)
	}
	e.W = w
	if _, err := w.Exec(`CREATE TABLE t0(id INTEGER PRIMARY KEY, v BLOB); CREATE TABLE t1(id INTEGER PRIMARY KEY, v BLOB); CREATE TABLE t2(id INTEGER PRIMARY KEY, v BLOB);`); err != nil {
		return nil, err
	}
	if err := e.openAux(); err != nil {
		return nil, err
	}
	if err := e.Record(); err != nil {
		return nil, err
	}
	return e, nil
}

func (e *Env) openAux() error {
	x, err := sq.Open(e.DBPath, 50, 2, 2)
	if err != nil {
		return err
	}
	e.X = x
	return nil
}

// ReopenApp closes and reopens all application connections (used around
// disturbances that replace the database file).
func (e *Env) CloseApp() {
	e.EndOpenTx(false)
	e.EndReader()
	if e.W != nil {
		e.W.Close()
		e.W = nil
	}
	if e.X != nil {
		e.X.Close()
		e.X = nil
	}
}

func (e *Env) OpenApp() error {
	w, err := sq.Open(e.DBPath, 50, 0, 1)
	if err != nil {
		return err
	}
	e.W = w
	return e.openAux()
}

func (e *Env) Close() {
	sq.ExtraPragmas = ""
	if e.metaFull {
		_ = e.MetaFull(false)
	}
	defer e.UnmountMeta()
	e.CloseApp()
	if e.LS != nil && e.LS.IsOpen() {
		ctx, cancel := context.WithTimeout(context.Background(), 20*time.Second)
		_ = e.LS.Close(ctx)
		cancel()
	}
}

func (e *Env) Logf(format string, a ...any) { e.Res.Logf(format, a...) }

// NewLS builds a litestream DB object for the source (a "process start").
func (e *Env) NewLS() *litestream.DB {
	db := litestream.NewDB(e.DBPath)
	db.MonitorInterval = 0
	db.ShutdownSyncTimeout = 0
	db.BusyTimeout = 20 * time.Millisecond
	db.Logger = slog.New(e.Logs)
	c := e.Cfg
	db.MinCheckpointPageN = c.MinCheckpointPageN
	db.TruncatePageN = c.TruncatePageN
	db.CheckpointInterval = time.Duration(c.CheckpointInterval)
	switch {
	case c.MaxSyncWALFrames > 0:
		db.MaxSyncWALBytes = int64(c.MaxSyncWALFrames) * int64(c.PageSize+24)
	case c.MaxSyncWALFrames == 0:
		db.MaxSyncWALBytes = 0
	default:
		db.MaxSyncWALBytes = 64 << 20
	}
	fc := file.NewReplicaClient(e.RepPath)
	var client litestream.ReplicaClient = fc
	if e.Wrap != nil {
		client = e.Wrap(fc)
	}
	db.Replica = litestream.NewReplicaWithClient(db, client)
	db.Replica.MonitorEnabled = false
	db.Replica.MaxSyncLTXFiles = c.MaxSyncLTXFiles
	fc.Replica = db.Replica
	e.FileC = fc
	e.Client = client
	if e.Tune != nil {
		e.Tune(db)
	}
	return db
}

// StartLS creates a fresh DB object and opens it.
func (e *Env) StartLS() error {
	e.LS = e.NewLS()
	return e.LS.Open()
}

// ---------------------------------------------------------------------------
// application operations

func (e *Env) blob(n int) []byte {
	b := make([]byte, n)
	e.Rng.Read(b)
	return b
}

// Record stores H_k for the current committed state.
func (e *Env) Record() error {
	img, err := sq.SourceImage(e.DBPath, e.Dir)
	if err != nil {
		return fmt.Errorf("harness: source image: %w", err)
	}
	d, err := sq.DumpBytes(img, e.Dir, false)
	if err != nil {
		return fmt.Errorf("harness: dump: %w", err)
	}
	if d.K != e.K {
		return fmt.Errorf("harness: ledger is %d, controller expected %d", d.K, e.K)
	}
	e.Hashes[e.K] = d.Hash
	return nil
}

// WriteKind enumerates application write shapes.
var WriteKinds = []string{"ins-small", "ins-big", "ins-multi", "update", "delete-half", "delete-all", "ddl", "rollback-spill"}

// AppWrite runs one application transaction of a PRNG-chosen shape on the
// writer connection. Returns true if it committed.
func (e *Env) AppWrite() (bool, error) {
	kinds := []string{"ins-small", "ins-small", "ins-big", "ins-multi", "update", "delete-half", "delete-all", "ddl", "rollback-spill"}
	return e.AppWriteKind(kinds[e.Rng.Intn(len(kinds))])
}

func (e *Env) AppWriteKind(kind string) (bool, error) {
	if e.W == nil {
		return false, nil
	}
	tx, err := e.W.Begin()
	if err != nil {
		e.Logf("app begin err=%v", err)
		return false, nil
	}
	ti := e.Rng.Intn(3)
	if e.ForceTable > 0 {
		ti = e.ForceTable - 1 // directed histories: 1..3 = t0..t2 (the PRNG draw above is still consumed)
	}
	tbl := fmt.Sprintf("t%d", ti)
	var ex error
	switch kind {
	case "ins-small":
		_, ex = tx.Exec(`INSERT INTO `+tbl+`(v) VALUES(?)`, e.blob(10+e.Rng.Intn(200)))
	case "ins-big":
		_, ex = tx.Exec(`INSERT INTO `+tbl+`(v) VALUES(?)`, e.blob([]int{3000, 20000, 70000}[e.Rng.Intn(3)]))
	case "ins-multi":
		n := 2 + e.Rng.Intn(5)
		for i := 0; i < n && ex == nil; i++ {
			_, ex = tx.Exec(`INSERT INTO `+tbl+`(v) VALUES(?)`, e.blob(100+e.Rng.Intn(3000)))
		}
	case "update":
		_, ex = tx.Exec(`UPDATE `+tbl+` SET v=? WHERE id%3=?`, e.blob(50), e.Rng.Intn(3))
	case "delete-half":
		_, ex = tx.Exec(`DELETE FROM `+tbl+` WHERE id%2=?`, e.Rng.Intn(2))
	case "delete-all":
		_, ex = tx.Exec(`DELETE FROM ` + tbl)
	case "ddl":
		e.extraN++
		switch e.Rng.Intn(4) {
		case 0:
			_, ex = tx.Exec(fmt.Sprintf(`CREATE TABLE x%d(id INTEGER PRIMARY KEY, a, b)`, e.extraN))
			if ex == nil {
				_, ex = tx.Exec(fmt.Sprintf(`INSERT INTO x%d(a,b) VALUES(?,?)`, e.extraN), e.extraN, e.blob(300))
			}
		case 1:
			_, ex = tx.Exec(fmt.Sprintf(`CREATE INDEX IF NOT EXISTS i%d_%d ON %s(v)`, ti, e.extraN%2, tbl))
		case 2:
			_, ex = tx.Exec(fmt.Sprintf(`DROP INDEX IF EXISTS i%d_%d`, ti, e.extraN%2))
		case 3:
			var name sql.NullString
			_ = tx.QueryRow(`SELECT name FROM sqlite_master WHERE type='table' AND name LIKE 'x%' ORDER BY name LIMIT 1`).Scan(&name)
			if name.Valid {
				if e.Rng.Intn(2) == 0 {
					_, ex = tx.Exec(`DROP TABLE ` + name.String)
				} else {
					_, ex = tx.Exec(fmt.Sprintf(`ALTER TABLE %s ADD COLUMN c%d DEFAULT 7`, name.String, e.extraN))
				}
			}
		}
	case "rollback-spill":
		// uses the tiny-cache connection so frames spill before the rollback
		_ = tx.Rollback()
		return false, e.rollbackSpill()
	}
	if ex == nil {
		_, ex = tx.Exec(`UPDATE ledger SET k=?`, e.K+1)
	}
	if ex != nil {
		_ = tx.Rollback()
		e.Logf("app %s %s err=%v (rolled back)", kind, tbl, ex)
		return false, nil
	}
	if err := tx.Commit(); err != nil {
		e.Logf("app %s %s commit err=%v", kind, tbl, err)
		return false, nil
	}
	e.K++
	e.Logf("app %s %s -> k=%d", kind, tbl, e.K)
	e.Res.Count("app_commit_"+kind, 1)
	if e.OTx == nil {
		if err := e.Record(); err != nil {
			return true, err
		}
	}
	return true, nil
}

func (e *Env) rollbackSpill() error {
	if e.X == nil || e.OTx != nil {
		return nil
	}
	tx, err := e.X.Begin()
	if err != nil {
		e.Logf("app rollback-spill begin err=%v", err)
		return nil
	}
	var ex error
	for i := 0; i < 5 && ex == nil; i++ {
		_, ex = tx.Exec(`INSERT INTO t0(id,v) VALUES(?,?)`, -1-int64(e.Rng.Intn(1000000)), e.blob(9000))
	}
	if ex == nil {
		_, ex = tx.Exec(`UPDATE ledger SET k=?`, e.K+1000000)
	}
	_ = tx.Rollback()
	e.Logf("app rollback with spilled poison rows (err=%v)", ex)
	if ex == nil {
		e.Res.Count("app_rollback_spill", 1)
	}
	return nil
}

// Maint runs VACUUM or incremental_vacuum.
func (e *Env) Maint() {
	if e.W == nil {
		return
	}
	if e.Rng.Intn(2) == 0 {
		_, err := e.W.Exec(`VACUUM`)
		e.Logf("app VACUUM err=%v", err)
		if err == nil {
			e.Res.Count("app_vacuum", 1)
		}
	} else {
		n := 1 + e.Rng.Intn(8)
		_, err := e.W.Exec(fmt.Sprintf(`PRAGMA incremental_vacuum(%d)`, n))
		e.Logf("app incremental_vacuum(%d) err=%v", n, err)
		if err == nil {
			e.Res.Count("app_incremental_vacuum", 1)
		}
	}
}

var CheckpointModes = []string{"PASSIVE", "FULL", "RESTART", "TRUNCATE"}

// AppCheckpoint issues a checkpoint from the application connection.
func (e *Env) AppCheckpoint(mode string) {
	if e.W == nil {
		return
	}
	var a, b, c int
	err := e.W.QueryRow(`PRAGMA wal_checkpoint(`+mode+`)`).Scan(&a, &b, &c)
	e.Logf("app wal_checkpoint(%s) busy=%d log=%d ckpt=%d err=%v", mode, a, b, c, err)
	if err == nil && a == 0 {
		e.Res.Count("app_checkpoint_"+mode, 1)
	}
}

// ToggleOpenTx opens a spilling write transaction on the aux connection, or
// ends it (commit / rollback by PRNG).
func (e *Env) ToggleOpenTx() error {
	if e.OTx != nil {
		return e.EndOpenTx(e.Rng.Intn(2) == 0)
	}
	if e.X == nil {
		return nil
	}
	tx, err := e.X.Begin()
	if err != nil {
		e.Logf("otx begin err=%v", err)
		return nil
	}
	var ex error
	n := 3 + e.Rng.Intn(6)
	for i := 0; i < n && ex == nil; i++ {
		_, ex = tx.Exec(`INSERT INTO t1(v) VALUES(?)`, e.blob(6000))
	}
	if ex == nil {
		_, ex = tx.Exec(`INSERT INTO t0(id,v) VALUES(?,?)`, -1-int64(e.Rng.Intn(1000000)), e.blob(100))
	}
	if ex == nil {
		_, ex = tx.Exec(`UPDATE ledger SET k=?`, e.K+1)
	}
	if ex != nil {
		_ = tx.Rollback()
		e.Logf("otx write err=%v", ex)
		return nil
	}
	e.OTx = tx
	e.Logf("otx open (uncommitted frames spilled, poison row pending)")
	e.Res.Count("otx_open", 1)
	return nil
}

// EndOpenTx finishes the open transaction. The poison row is removed before a
// commit so that only rollbacks leave... nothing; a restored poison row means
// uncommitted data was replicated.
func (e *Env) EndOpenTx(commit bool) error {
	if e.OTx == nil {
		return nil
	}
	tx := e.OTx
	e.OTx = nil
	if commit {
		_, err := tx.Exec(`DELETE FROM t0 WHERE id<0`)
		if err == nil {
			err = tx.Commit()
		}
		if err != nil {
			_ = tx.Rollback()
			e.Logf("otx commit err=%v", err)
			return nil
		}
		e.K++
		e.Logf("otx commit -> k=%d", e.K)
		e.Res.Count("otx_commit", 1)
		return e.Record()
	}
	_ = tx.Rollback()
	e.Logf("otx rollback")
	e.Res.Count("otx_rollback", 1)
	return nil
}

func (e *Env) ToggleReader() {
	if e.RTx != nil {
		e.EndReader()
		return
	}
	if e.X == nil {
		return
	}
	tx, err := e.X.Begin()
	if err != nil {
		return
	}
	var n int
	_ = tx.QueryRow(`SELECT count(*) FROM t0`).Scan(&n)
	e.RTx = tx
	e.Logf("reader begin")
	e.Res.Count("reader_open", 1)
}

func (e *Env) EndReader() {
	if e.RTx != nil {
		_ = e.RTx.Rollback()
		e.RTx = nil
		e.Logf("reader end")
	}
}

func (e *Env) Pinned() bool { return e.OTx != nil || e.RTx != nil }

// ---------------------------------------------------------------------------
// oracles bound to the environment

// SourceImage returns the committed source image now.
func (e *Env) SourceImage() ([]byte, error) { return sq.SourceImage(e.DBPath, e.Dir) }

// RestoreTo restores with opt into a fresh path and returns the bytes.
func (e *Env) RestoreBytes(opt litestream.RestoreOptions) ([]byte, error) {
	return RestoreBytes(e.Ctx, e.ReadReplica(), e.Dir, opt)
}

// ReadReplica returns a Replica bound to the plain file client (fault-free
// view of the store, independent of the DB object's caches).
func (e *Env) ReadReplica() *litestream.Replica {
	c := file.NewReplicaClient(e.RepPath)
	r := litestream.NewReplicaWithClient(nil, c)
	return r
}

var outMu sync.Mutex
var outN int

func RestoreBytes(ctx context.Context, r *litestream.Replica, dir string, opt litestream.RestoreOptions) ([]byte, error) {
	outMu.Lock()
	outN++
	out := filepath.Join(dir, fmt.Sprintf("restore-out-%d", outN))
	outMu.Unlock()
	opt.OutputPath = out
	defer func() {
		os.Remove(out)
		os.Remove(out + ".tmp")
		os.Remove(out + "-txid")
	}()
	if err := r.Restore(ctx, opt); err != nil {
		return nil, err
	}
	return os.ReadFile(out)
}

// AckCompare is the C01 oracle: take O-SRC now, restore latest with a full
// integrity check from the replica alone, compare under the mask.
func (e *Env) AckCompare(tag string) (violation string, harness error) {
	src, err := e.SourceImage()
	if err != nil {
		return "", fmt.Errorf("source image: %w", err)
	}
	opt := litestream.NewRestoreOptions()
	opt.IntegrityCheck = litestream.IntegrityCheckFull
	got, err := e.RestoreBytes(opt)
	e.Res.Evals++
	e.Res.Count("ack_compared", 1)
	if err != nil {
		return fmt.Sprintf("%s: restore after acknowledged sync failed: %v", tag, err), nil
	}
	if err := oracle.CompareMasked(src, got, e.Dir); err != nil {
		if strings.HasPrefix(err.Error(), "harness:") {
			return "", err
		}
		return fmt.Sprintf("%s: %v", tag, err), nil
	}
	return "", nil
}

// CheckConsistent applies O-LEDGER to a restored image: integrity ok, no
// poison, ledger value known, dump hash equals H_k. Returns k.
func (e *Env) CheckConsistent(img []byte) (int64, string) {
	d, err := sq.DumpBytes(img, e.Dir, true)
	if err != nil {
		return -1, fmt.Sprintf("restored database unreadable: %v", err)
	}
	if d.Integ != "ok" {
		return d.K, fmt.Sprintf("integrity_check: %s", d.Integ)
	}
	if d.Poison > 0 {
		return d.K, fmt.Sprintf("%d poison rows (uncommitted or rolled-back data) present", d.Poison)
	}
	want, ok := e.Hashes[d.K]
	if !ok {
		return d.K, fmt.Sprintf("ledger value k=%d was never committed by the application", d.K)
	}
	if want != d.Hash {
		return d.K, fmt.Sprintf("content at ledger k=%d differs from what the application committed (mixture of commits)", d.K)
	}
	return d.K, ""
}

// ReplicaTXIDs returns the set of MaxTXIDs listed at any level plus the L0 range.
func (e *Env) ReplicaFiles() []oracle.FileRef { return oracle.ListAll(e.RepPath) }

// L0Count counts local level-0 files in the meta dir.
func (e *Env) LocalL0Count() int {
	return len(oracle.ListLevel(e.LS.MetaPath(), 0))
}

func TXID(n int) ltx.TXID { return ltx.TXID(n) }
